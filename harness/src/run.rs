//! Running one execution of a real entry point under the virtual network.

use crate::alloc::{self, AllocStats};
use crate::vnet::{Chooser, HangSignal, Net, Point, Policy, Responder, WireEvent};
use gamedig::{GDErrorKind, GDResult};
use std::cell::RefCell;
use std::panic::{catch_unwind, AssertUnwindSafe};

#[derive(Clone, Debug, PartialEq)]
pub enum Outcome<T> {
    Ok(T),
    Err(GDErrorKind, String),
    Panic { msg: String, loc: String },
    Hang(String),
    /// the replayed prefix did not fit the menus met (machinery error)
    Diverged(String),
}

impl<T> Outcome<T> {
    pub fn class(&self) -> String {
        match self {
            Outcome::Ok(_) => "ok".into(),
            Outcome::Err(k, _) => format!("err:{k:?}"),
            Outcome::Panic { loc, .. } => format!("panic@{loc}"),
            Outcome::Hang(_) => "hang".into(),
            Outcome::Diverged(_) => "diverged".into(),
        }
    }
    pub fn is_total(&self) -> bool { matches!(self, Outcome::Ok(_) | Outcome::Err(..)) }
    pub fn ok(&self) -> Option<&T> {
        match self {
            Outcome::Ok(t) => Some(t),
            _ => None,
        }
    }
    pub fn err_kind(&self) -> Option<&GDErrorKind> {
        match self {
            Outcome::Err(k, _) => Some(k),
            _ => None,
        }
    }
    pub fn map<U>(self, f: impl FnOnce(T) -> U) -> Outcome<U> {
        match self {
            Outcome::Ok(t) => Outcome::Ok(f(t)),
            Outcome::Err(k, s) => Outcome::Err(k, s),
            Outcome::Panic { msg, loc } => Outcome::Panic { msg, loc },
            Outcome::Hang(s) => Outcome::Hang(s),
            Outcome::Diverged(s) => Outcome::Diverged(s),
        }
    }
    /// Deterministic rendering (maps are sorted).
    pub fn describe_json(&self) -> String
    where T: serde::Serialize {
        match self {
            Outcome::Ok(t) => {
                let s = format!("Ok({})", crate::props::common::to_json(t));
                crate::props::common::clip(&s, 1500)
            }
            Outcome::Err(k, s) => format!("Err({k:?}: {s})"),
            Outcome::Panic { msg, loc } => format!("PANIC at {loc}: {msg}"),
            Outcome::Hang(s) => format!("DID NOT RETURN: {s}"),
            Outcome::Diverged(s) => format!("MACHINERY: {s}"),
        }
    }
    pub fn describe(&self) -> String
    where T: std::fmt::Debug {
        match self {
            Outcome::Ok(t) => {
                let s = format!("Ok({t:?})");
                if s.len() > 1500 {
                    format!("{}…", &s[.. s.char_indices().nth(1500).map_or(s.len(), |x| x.0)])
                } else {
                    s
                }
            }
            Outcome::Err(k, s) => format!("Err({k:?}: {s})"),
            Outcome::Panic { msg, loc } => format!("PANIC at {loc}: {msg}"),
            Outcome::Hang(s) => format!("DID NOT RETURN: {s}"),
            Outcome::Diverged(s) => format!("MACHINERY: {s}"),
        }
    }
}

pub struct Exec<T> {
    pub outcome: Outcome<T>,
    pub log: Vec<WireEvent>,
    pub points: Vec<Point>,
    pub alloc: AllocStats,
    pub ops: usize,
}

impl<T> Exec<T> {
    pub fn map_ok<U>(self, f: impl FnOnce(T) -> U) -> Exec<U> {
        Exec {
            outcome: self.outcome.map(f),
            log: self.log,
            points: self.points,
            alloc: self.alloc,
            ops: self.ops,
        }
    }
    pub fn choices(&self) -> Vec<u32> { self.points.iter().map(|p| p.chosen).collect() }
    pub fn reached_receive(&self) -> bool { self.log.iter().any(|e| matches!(e, WireEvent::Recv { .. })) }
    /// A coarse shape of the wire log, used for counting distinct behaviours.
    pub fn shape(&self) -> String {
        let mut s = String::new();
        for e in &self.log {
            match e {
                WireEvent::Open { tcp, accepted, .. } => {
                    s.push(if *tcp { 'T' } else { 'U' });
                    if !accepted {
                        s.push('!');
                    }
                }
                WireEvent::Send { ok, bytes, .. } => {
                    s.push('s');
                    s.push_str(&format!("{}", bytes.len().min(99)));
                    if !ok {
                        s.push('!');
                    }
                }
                WireEvent::Recv { data, .. } => {
                    match data {
                        Some(d) => s.push_str(&format!("r{}", d.len().min(9999))),
                        None => s.push('t'),
                    }
                }
                WireEvent::BlocksForever { .. } => s.push('B'),
            }
        }
        s
    }
}

thread_local! {
    static LAST_PANIC: RefCell<Option<(String, String)>> = const { RefCell::new(None) };
}

/// Install a panic hook that records message + location instead of printing.
pub fn install_panic_hook() {
    std::panic::set_hook(Box::new(|info| {
        let armed = alloc::pause();
        let loc = info
            .location()
            .map(|l| format!("{}:{}", l.file(), l.line()))
            .unwrap_or_else(|| "?".into());
        let msg = if let Some(s) = info.payload().downcast_ref::<&str>() {
            (*s).to_string()
        } else if let Some(s) = info.payload().downcast_ref::<String>() {
            s.clone()
        } else if info.payload().downcast_ref::<HangSignal>().is_some() {
            "<hang signal>".to_string()
        } else {
            "<non-string panic payload>".to_string()
        };
        LAST_PANIC.with(|p| *p.borrow_mut() = Some((msg, loc)));
        alloc::resume(armed);
    }));
}

fn shorten_loc(loc: &str) -> String {
    // keep paths stable across checkouts: strip everything up to "crates/"
    if let Some(i) = loc.find("crates/") {
        loc[i ..].to_string()
    } else if let Some(i) = loc.find("/library/") {
        format!("std{}", &loc[i + 8 ..])
    } else {
        loc.to_string()
    }
}

/// Run `f` (a real entry point) against `responder` under `policy`, replaying
/// `prefix` and then taking defaults.
pub fn run_query<T>(
    responder: Box<dyn Responder>,
    policy: Box<dyn Policy>,
    chooser: Chooser,
    f: impl FnOnce() -> GDResult<T>,
) -> Exec<T> {
    run_query_with(responder, policy, chooser, |_| {}, f)
}

pub fn run_query_with<T>(
    responder: Box<dyn Responder>,
    policy: Box<dyn Policy>,
    chooser: Chooser,
    tune: impl FnOnce(&mut crate::vnet::NetState),
    f: impl FnOnce() -> GDResult<T>,
) -> Exec<T> {
    let prefix_len = chooser.prefix.len();
    let net = Net::new(responder, policy, chooser);
    tune(&mut net.0.borrow_mut());
    let prev = gamedig::verif_hook::install(Box::new(net.clone()));
    assert!(prev.is_none(), "nested virtual networks are not supported");
    LAST_PANIC.with(|p| *p.borrow_mut() = None);
    alloc::arm();
    let r = catch_unwind(AssertUnwindSafe(f));
    let stats = alloc::disarm();
    let _ = gamedig::verif_hook::uninstall();
    let mut outcome = match r {
        Ok(Ok(t)) => Outcome::Ok(t),
        Ok(Err(e)) => {
            let src = e.source.as_ref().map(|s| s.to_string()).unwrap_or_default();
            Outcome::Err(e.kind, src)
        }
        Err(payload) => {
            if let Some(h) = payload.downcast_ref::<HangSignal>() {
                Outcome::Hang(h.0.clone())
            } else {
                let (msg, loc) = LAST_PANIC
                    .with(|p| p.borrow_mut().take())
                    .unwrap_or_else(|| ("<unknown>".into(), "?".into()));
                Outcome::Panic {
                    msg,
                    loc: shorten_loc(&loc),
                }
            }
        }
    };
    let st = net.0.borrow();
    if let Some(d) = &st.chooser.diverged {
        outcome = Outcome::Diverged(d.clone());
    } else if st.chooser.points.len() < prefix_len {
        outcome = Outcome::Diverged(format!(
            "replay divergence: prefix has {} choices but the execution met only {} choice points",
            prefix_len,
            st.chooser.points.len()
        ));
    }
    Exec {
        outcome,
        log: st.log.clone(),
        points: st.chooser.points.clone(),
        alloc: stats,
        ops: st.ops,
    }
}

/// Run a pure (network-free) closure with panic capture.
pub fn run_pure<T>(f: impl FnOnce() -> T) -> Result<T, (String, String)> {
    LAST_PANIC.with(|p| *p.borrow_mut() = None);
    match catch_unwind(AssertUnwindSafe(f)) {
        Ok(t) => Ok(t),
        Err(_) => {
            let (msg, loc) = LAST_PANIC
                .with(|p| p.borrow_mut().take())
                .unwrap_or_else(|| ("<unknown>".into(), "?".into()));
            Err((msg, shorten_loc(&loc)))
        }
    }
}
