//! Breadcrumb file: the worker records which execution it is about to run so
//! that the driver can attribute a process death (abort, SIGSEGV, OOM kill,
//! watchdog kill) to that exact execution. Allocation-free (called from the
//! allocator).

use std::sync::atomic::{AtomicI32, Ordering};

static FD: AtomicI32 = AtomicI32::new(-1);

pub const REC: usize = 1024;
pub const OVERSIZE_OFF: usize = REC;
pub const OVERSIZE_LEN: usize = 64;

pub fn open(path: &str) {
    let c = std::ffi::CString::new(path).unwrap();
    let fd = unsafe { libc::open(c.as_ptr(), libc::O_CREAT | libc::O_RDWR | libc::O_TRUNC, 0o644) };
    assert!(fd >= 0, "cannot open breadcrumb file {path}");
    FD.store(fd, Ordering::SeqCst);
}

struct Buf {
    b: [u8; REC + OVERSIZE_LEN],
    n: usize,
}

impl Buf {
    fn push(&mut self, s: &[u8]) {
        for &c in s {
            if self.n < REC - 1 {
                self.b[self.n] = c;
                self.n += 1;
            }
        }
    }
    fn num(&mut self, mut v: u64) {
        let mut tmp = [0u8; 20];
        let mut i = 20;
        if v == 0 {
            i -= 1;
            tmp[i] = b'0';
        }
        while v > 0 {
            i -= 1;
            tmp[i] = b'0' + (v % 10) as u8;
            v /= 10;
        }
        let (_, t) = tmp.split_at(i);
        let mut k = 0;
        while k < t.len() {
            if self.n < REC - 1 {
                self.b[self.n] = t[k];
                self.n += 1;
            }
            k += 1;
        }
    }
}

/// Record "about to run case `case` with these choices".
pub fn mark(case: usize, choices: &[u32]) {
    let fd = FD.load(Ordering::Relaxed);
    if fd < 0 {
        return;
    }
    let mut buf = Buf {
        b: [b' '; REC + OVERSIZE_LEN],
        n: 0,
    };
    buf.push(b"case=");
    buf.num(case as u64);
    buf.push(b" choices=");
    for (i, c) in choices.iter().enumerate() {
        if i > 0 {
            buf.push(b",");
        }
        buf.num(*c as u64);
    }
    buf.push(b" ;");
    buf.b[REC - 1] = b'\n';
    buf.b[REC + OVERSIZE_LEN - 1] = b'\n';
    unsafe {
        libc::pwrite(fd, buf.b.as_ptr() as *const libc::c_void, buf.b.len(), 0);
    }
}

/// Record "finished cleanly" (so that a later death is not attributed).
pub fn done() {
    let fd = FD.load(Ordering::Relaxed);
    if fd < 0 {
        return;
    }
    let mut b = [b' '; 16];
    b[..5].copy_from_slice(b"idle ");
    unsafe {
        libc::pwrite(fd, b.as_ptr() as *const libc::c_void, b.len(), 0);
    }
}

/// Called by the allocator before refusing an oversized request.
pub fn oversize(size: usize) {
    let fd = FD.load(Ordering::Relaxed);
    if fd < 0 {
        return;
    }
    let mut buf = Buf {
        b: [b' '; REC + OVERSIZE_LEN],
        n: 0,
    };
    buf.push(b"oversize=");
    buf.num(size as u64);
    buf.push(b" ;");
    unsafe {
        libc::pwrite(
            fd,
            buf.b.as_ptr() as *const libc::c_void,
            OVERSIZE_LEN - 1,
            OVERSIZE_OFF as libc::off_t,
        );
    }
}

/// Parse a breadcrumb file: (case, choices, oversize) if a run was in flight.
pub fn read(path: &str) -> Option<(usize, Vec<u32>, Option<u64>)> {
    let data = std::fs::read(path).ok()?;
    let text = String::from_utf8_lossy(&data).to_string();
    let first = text.get(..REC.min(text.len()))?;
    if !first.starts_with("case=") {
        return None;
    }
    let first = first.split(';').next()?;
    let mut case = None;
    let mut choices = Vec::new();
    for tok in first.split_whitespace() {
        if let Some(v) = tok.strip_prefix("case=") {
            case = v.parse().ok();
        } else if let Some(v) = tok.strip_prefix("choices=") {
            choices = v.split(',').filter(|s| !s.is_empty()).filter_map(|s| s.parse().ok()).collect();
        }
    }
    let oversize = text
        .get(OVERSIZE_OFF..)
        .and_then(|s| s.split(';').next())
        .and_then(|s| s.trim().strip_prefix("oversize="))
        .and_then(|s| s.trim().parse().ok());
    Some((case?, choices, oversize))
}
