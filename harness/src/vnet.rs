//! Virtual network (DESIGN §2.1): implements the hook trait of /repo, keeps the
//! wire log, and turns every environment answer into a choice point.

use gamedig::protocols::types::TimeoutSettings;
use gamedig::verif_hook::VirtualNet;
use std::cell::RefCell;
use std::collections::VecDeque;
use std::net::SocketAddr;
use std::rc::Rc;
use std::time::Duration;

/// What the client observed / did on the wire.
#[derive(Clone, Debug, PartialEq, Eq, serde::Serialize)]
pub enum WireEvent {
    Open {
        conn: u64,
        tcp: bool,
        addr: SocketAddr,
        read: Option<Duration>,
        write: Option<Duration>,
        connect: Option<Duration>,
        retries: Option<usize>,
        accepted: bool,
    },
    Send {
        conn: u64,
        bytes: Vec<u8>,
        ok: bool,
    },
    Recv {
        conn: u64,
        size: Option<usize>,
        /// None = timed out
        data: Option<Vec<u8>>,
    },
    /// The preceding receive got nothing, and the real socket object carried NO read timeout at that moment: on a real
    /// network that receive would not have timed out but blocked for ever (the virtual network let the query go on).
    BlocksForever { conn: u64 },
}

#[derive(Clone, Debug)]
pub struct ConnInfo {
    pub id: u64,
    pub tcp: bool,
    pub addr: SocketAddr,
    /// all bytes sent on this connection so far (TCP) / list of datagrams (UDP)
    pub sent: Vec<Vec<u8>>,
    /// number of receives completed on this connection
    pub receives: usize,
    /// TCP: the stream has been delivered up to EOF
    pub eof: bool,
}

/// The server side: a (deterministic) reference server model.
pub trait Responder {
    /// Accept the connection / socket? (false = refuse: TCP connect fails.)
    fn accept(&mut self, _tcp: bool, _addr: &SocketAddr) -> bool { true }
    /// UDP: datagrams the server sends in reply to this request datagram.
    /// TCP: ignored (see `stream`).
    fn on_datagram(&mut self, conn: &ConnInfo, data: &[u8]) -> Vec<Vec<u8>>;
    /// TCP: the complete stream the server writes before closing, given all
    /// bytes the client has written so far. None = server stays silent.
    fn stream(&mut self, _conn: &ConnInfo) -> Option<Vec<u8>> { None }
}

/// A server that never answers.
pub struct Silent;
impl Responder for Silent {
    fn on_datagram(&mut self, _c: &ConnInfo, _d: &[u8]) -> Vec<Vec<u8>> { Vec::new() }
}

/// What to hand to a blocked receive.
#[derive(Clone, Debug)]
pub enum Pick {
    /// Deliver and remove the head of the in-flight queue (timeout if empty).
    Head,
    /// Deliver and remove queue[n].
    Nth(usize),
    /// Deliver a copy of queue[n], leaving it in flight.
    Dup(usize),
    /// Deliver these bytes instead of the head (head is consumed if `consume`).
    Custom { data: Vec<u8>, consume: bool },
    /// Nothing arrives: the receive times out. `drop_all` discards everything
    /// in flight (the server has gone silent for good).
    Timeout { drop_all: bool },
}

pub struct RecvPoint<'a> {
    pub conn: &'a ConnInfo,
    /// global index of this receive within the query
    pub recv_index: usize,
    /// datagrams in flight to this connection (TCP: zero or one stream)
    pub queue: &'a VecDeque<Vec<u8>>,
    pub size: Option<usize>,
    /// non-default choices taken so far in this execution
    pub deviations: usize,
}

pub struct SendPoint<'a> {
    pub conn: &'a ConnInfo,
    pub send_index: usize,
    pub data: &'a [u8],
    pub deviations: usize,
}

/// The adversary: decides which answers are offered at each environment step.
/// Index 0 must always be the default (well-behaved) answer.
pub trait Policy {
    fn recv_menu(&mut self, _pt: &RecvPoint) -> usize { 1 }
    fn recv_pick(&mut self, _pt: &RecvPoint, _idx: usize) -> Pick { Pick::Head }
    /// send: 0 = delivered, 1.. = failure flavours
    fn send_menu(&mut self, _pt: &SendPoint) -> usize { 1 }
    /// open: 0 = as the responder says, 1 = refused
    fn open_menu(&mut self, _tcp: bool, _addr: &SocketAddr, _deviations: usize) -> usize { 1 }
}

/// No deviations at all.
pub struct Faithful;
impl Policy for Faithful {}

#[derive(Clone, Copy, Debug, PartialEq, Eq, serde::Serialize, serde::Deserialize)]
pub struct Point {
    pub menu: u32,
    pub chosen: u32,
}

/// Replays a prefix of choices, then takes the default forever; records every
/// real choice point (menu > 1).
#[derive(Default)]
pub struct Chooser {
    pub prefix: Vec<u32>,
    pub points: Vec<Point>,
    pub deviations: usize,
    pub diverged: Option<String>,
}

impl Chooser {
    pub fn new(prefix: &[u32]) -> Self {
        Self {
            prefix: prefix.to_vec(),
            ..Default::default()
        }
    }

    pub fn choose(&mut self, menu: usize) -> usize {
        if menu <= 1 {
            return 0;
        }
        let pos = self.points.len();
        let mut c = if pos < self.prefix.len() { self.prefix[pos] as usize } else { 0 };
        if c >= menu {
            if self.diverged.is_none() {
                self.diverged = Some(format!(
                    "replay divergence at point {pos}: recorded choice {c} but menu has {menu} entries"
                ));
            }
            c = 0;
        }
        if c != 0 {
            self.deviations += 1;
        }
        self.points.push(Point {
            menu: menu as u32,
            chosen: c as u32,
        });
        c
    }
}

/// Payload used to unwind out of a query that does not stop.
pub struct HangSignal(pub String);

pub struct NetState {
    pub responder: Box<dyn Responder>,
    pub policy: Box<dyn Policy>,
    pub chooser: Chooser,
    pub log: Vec<WireEvent>,
    pub conns: Vec<ConnInfo>,
    pub queues: Vec<VecDeque<Vec<u8>>>,
    pub recv_count: usize,
    pub send_count: usize,
    pub ops: usize,
    pub consecutive_timeouts: usize,
    pub max_ops: usize,
    pub max_consecutive_timeouts: usize,
    /// set once the watchdog has fired, so that unwinding code that touches the
    /// socket again does not re-panic
    pub hung: bool,
}

thread_local! {
    /// (socket operations, consecutive receive timeouts) after which one query counts as not returning
    static HORIZON: std::cell::Cell<(usize, usize)> = const { std::cell::Cell::new((8192, 64)) };
}

/// Runs `f` with a wider horizon (for settings that legitimately ask for many attempts).
pub fn with_horizon<T>(ops: usize, timeouts: usize, f: impl FnOnce() -> T) -> T {
    let old = HORIZON.with(|h| h.replace((ops, timeouts)));
    let out = f();
    HORIZON.with(|h| h.set(old));
    out
}

/// Handle shared between the harness (to read the log afterwards) and the
/// boxed `VirtualNet` installed in the library.
#[derive(Clone)]
pub struct Net(pub Rc<RefCell<NetState>>);

impl Net {
    pub fn new(responder: Box<dyn Responder>, policy: Box<dyn Policy>, chooser: Chooser) -> Self {
        Net(Rc::new(RefCell::new(NetState {
            responder,
            policy,
            chooser,
            log: Vec::new(),
            conns: Vec::new(),
            queues: Vec::new(),
            recv_count: 0,
            send_count: 0,
            ops: 0,
            consecutive_timeouts: 0,
            max_ops: HORIZON.with(|h| h.get().0),
            max_consecutive_timeouts: HORIZON.with(|h| h.get().1),
            hung: false,
        })))
    }
}

impl NetState {
    fn op(&mut self) {
        self.ops += 1;
        if self.hung {
            return;
        }
        if self.ops > self.max_ops {
            self.hung = true;
            std::panic::panic_any(HangSignal(format!(
                "more than {} socket operations in one query",
                self.max_ops
            )));
        }
        if self.consecutive_timeouts > self.max_consecutive_timeouts {
            self.hung = true;
            std::panic::panic_any(HangSignal(format!(
                "query keeps going after {} consecutive receive timeouts (server silent)",
                self.consecutive_timeouts
            )));
        }
    }
}

impl VirtualNet for Net {
    fn open(&mut self, tcp: bool, address: &SocketAddr, timeouts: &Option<TimeoutSettings>) -> Result<u64, String> {
        let armed = crate::alloc::pause();
        let mut guard = self.0.borrow_mut();
        let st = &mut *guard;
        st.op();
        let id = st.conns.len() as u64;
        let devs = st.chooser.deviations;
        let menu = st.policy.open_menu(tcp, address, devs);
        let choice = st.chooser.choose(menu);
        let accepted = choice == 0 && st.responder.accept(tcp, address);
        st.conns.push(ConnInfo {
            id,
            tcp,
            addr: *address,
            sent: Vec::new(),
            receives: 0,
            eof: false,
        });
        st.queues.push(VecDeque::new());
        st.log.push(WireEvent::Open {
            conn: id,
            tcp,
            addr: *address,
            read: timeouts.as_ref().and_then(TimeoutSettings::get_read),
            write: timeouts.as_ref().and_then(TimeoutSettings::get_write),
            connect: timeouts.as_ref().and_then(TimeoutSettings::get_connect),
            retries: timeouts.as_ref().map(TimeoutSettings::get_retries),
            accepted,
        });
        drop(guard);
        crate::alloc::resume(armed);
        if accepted {
            Ok(id)
        } else {
            Err("connection refused (virtual network)".to_string())
        }
    }

    fn send(&mut self, conn: u64, data: &[u8]) -> Result<(), String> {
        let armed = crate::alloc::pause();
        let mut guard = self.0.borrow_mut();
        let st = &mut *guard;
        st.op();
        let c = conn as usize;
        let devs = st.chooser.deviations;
        let menu = st.policy.send_menu(&SendPoint {
            conn: &st.conns[c],
            send_index: st.send_count,
            data,
            deviations: devs,
        });
        let choice = st.chooser.choose(menu);
        st.send_count += 1;
        let ok = choice == 0;
        st.log.push(WireEvent::Send {
            conn,
            bytes: data.to_vec(),
            ok,
        });
        if ok {
            st.conns[c].sent.push(data.to_vec());
            if !st.conns[c].tcp {
                let replies = st.responder.on_datagram(&st.conns[c], data);
                st.queues[c].extend(replies);
            }
        }
        drop(guard);
        crate::alloc::resume(armed);
        if ok {
            Ok(())
        } else {
            Err("send failed (virtual network)".to_string())
        }
    }

    fn receive(&mut self, conn: u64, tcp: bool, size: Option<usize>) -> Result<Vec<u8>, String> {
        let armed = crate::alloc::pause();
        let mut guard = self.0.borrow_mut();
        let st = &mut *guard;
        st.op();
        let c = conn as usize;
        if tcp && st.conns[c].eof {
            // the peer has closed: read_to_end returns immediately with nothing
            st.log.push(WireEvent::Recv {
                conn,
                size,
                data: Some(Vec::new()),
            });
            st.recv_count += 1;
            drop(guard);
            crate::alloc::resume(armed);
            // (the real socket reserves the requested size before it finds the stream closed)
            return Ok(Vec::with_capacity(size.unwrap_or(1024)));
        }
        if tcp && st.queues[c].is_empty() {
            if let Some(stream) = st.responder.stream(&st.conns[c]) {
                st.queues[c].push_back(stream);
            }
        }
        let devs = st.chooser.deviations;
        let recv_index = st.recv_count;
        let menu = {
            let pt = RecvPoint {
                conn: &st.conns[c],
                recv_index,
                queue: &st.queues[c],
                size,
                deviations: devs,
            };
            st.policy.recv_menu(&pt)
        };
        let choice = st.chooser.choose(menu);
        let pick = {
            let pt = RecvPoint {
                conn: &st.conns[c],
                recv_index,
                queue: &st.queues[c],
                size,
                deviations: devs,
            };
            st.policy.recv_pick(&pt, choice)
        };
        let answer: Option<Vec<u8>> = match pick {
            Pick::Head => st.queues[c].pop_front(),
            Pick::Nth(n) => st.queues[c].remove(n),
            Pick::Dup(n) => st.queues[c].get(n).cloned(),
            Pick::Custom { data, consume } => {
                if consume {
                    st.queues[c].pop_front();
                }
                Some(data)
            }
            Pick::Timeout { drop_all } => {
                if drop_all {
                    st.queues[c].clear();
                }
                None
            }
        };
        st.recv_count += 1;
        st.conns[c].receives += 1;
        match &answer {
            None => st.consecutive_timeouts += 1,
            Some(_) => {
                st.consecutive_timeouts = 0;
                if tcp {
                    st.conns[c].eof = true;
                }
            }
        }
        // log what the client will actually see (UDP truncation happens in the shim)
        let seen = answer.as_ref().map(|d| {
            if tcp {
                d.clone()
            } else {
                let lim = size.unwrap_or(1024);
                d[.. d.len().min(lim)].to_vec()
            }
        });
        st.log.push(WireEvent::Recv {
            conn,
            size,
            data: seen,
        });
        if answer.is_none() && gamedig::verif_hook::read_timeout_in_effect() == Some(None) {
            st.log.push(WireEvent::BlocksForever { conn });
        }
        drop(guard);
        crate::alloc::resume(armed);
        // the real sockets reserve the *requested* size before anything arrives (TCP: Vec::with_capacity(size), UDP:
        // vec![0; size], 1024 when no size is given): the stand-in reserves the same, charged to the query, so that a receive
        // size computed from a reply field shows up in the allocation counters
        let reserve = size.unwrap_or(1024);
        let mut buf: Vec<u8> = Vec::with_capacity(reserve);
        match answer {
            Some(d) => {
                buf.extend_from_slice(d.as_slice());
                Ok(buf)
            }
            None => Err("timed out (virtual network)".to_string()),
        }
    }
}

// ---------------------------------------------------------------------------
// helpers over the wire log

pub fn sends(log: &[WireEvent]) -> Vec<(u64, &[u8])> {
    log.iter()
        .filter_map(|e| {
            match e {
                WireEvent::Send { conn, bytes, ok: true } => Some((*conn, bytes.as_slice())),
                _ => None,
            }
        })
        .collect()
}

pub fn all_sends(log: &[WireEvent]) -> Vec<(u64, &[u8], bool)> {
    log.iter()
        .filter_map(|e| {
            match e {
                WireEvent::Send { conn, bytes, ok } => Some((*conn, bytes.as_slice(), *ok)),
                _ => None,
            }
        })
        .collect()
}

pub fn opens(log: &[WireEvent]) -> Vec<(bool, SocketAddr)> {
    log.iter()
        .filter_map(|e| {
            match e {
                WireEvent::Open { tcp, addr, .. } => Some((*tcp, *addr)),
                _ => None,
            }
        })
        .collect()
}

pub fn recvs(log: &[WireEvent]) -> Vec<&Option<Vec<u8>>> {
    log.iter()
        .filter_map(|e| {
            match e {
                WireEvent::Recv { data, .. } => Some(data),
                _ => None,
            }
        })
        .collect()
}

pub fn hex(b: &[u8]) -> String {
    let mut s = String::with_capacity(b.len() * 2);
    for x in b {
        s.push_str(&format!("{x:02x}"));
    }
    s
}

pub fn unhex(s: &str) -> Vec<u8> {
    (0 .. s.len() / 2)
        .map(|i| u8::from_str_radix(&s[2 * i .. 2 * i + 2], 16).unwrap())
        .collect()
}

/// Compact rendering of a wire log for replay files.
pub fn render_log(log: &[WireEvent]) -> Vec<String> {
    log.iter()
        .map(|e| {
            match e {
                WireEvent::Open {
                    conn,
                    tcp,
                    addr,
                    accepted,
                    ..
                } => {
                    format!(
                        "open#{conn} {} {addr} {}",
                        if *tcp { "tcp" } else { "udp" },
                        if *accepted { "ok" } else { "refused" }
                    )
                }
                WireEvent::Send { conn, bytes, ok } => {
                    format!(
                        "send#{conn} {}{}",
                        clip(bytes),
                        if *ok { "" } else { " FAILED" }
                    )
                }
                WireEvent::Recv { conn, size, data } => {
                    match data {
                        Some(d) => format!("recv#{conn} size={size:?} <- {}", clip(d)),
                        None => format!("recv#{conn} size={size:?} <- TIMEOUT"),
                    }
                }
                WireEvent::BlocksForever { conn } => format!("      #{conn} (the real socket carries no read timeout: this receive would block for ever)"),
            }
        })
        .collect()
}

fn clip(b: &[u8]) -> String {
    if b.len() <= 600 {
        hex(b)
    } else {
        format!("{}...({} bytes)", hex(&b[.. 600]), b.len())
    }
}
