//! Valve master server reference model (Valve wiki "Master Server Query Protocol").

use crate::vnet::{ConnInfo, Responder};
use std::net::Ipv4Addr;

pub type Entry = (Ipv4Addr, u16);

pub const TERMINATOR: Entry = (Ipv4Addr::new(0, 0, 0, 0), 0);

pub fn page_datagram(entries: &[Entry]) -> Vec<u8> {
    let mut b = vec![0xFF, 0xFF, 0xFF, 0xFF, 0x66, 0x0A];
    for (ip, port) in entries {
        b.extend_from_slice(&ip.octets());
        b.extend_from_slice(&port.to_be_bytes());
    }
    b
}

/// Parsed master-server request.
#[derive(Clone, Debug, PartialEq)]
pub struct MasterRequest {
    pub region: u8,
    pub seed: String,
    pub filter: Vec<u8>,
}

pub fn parse_request(data: &[u8]) -> Result<MasterRequest, String> {
    if data.first() != Some(&0x31) {
        return Err("request does not start with '1'".into());
    }
    let region = *data.get(1).ok_or("no region byte")?;
    let rest = &data[2 ..];
    let z = rest.iter().position(|b| *b == 0).ok_or("seed address not NUL-terminated")?;
    let seed = String::from_utf8(rest[.. z].to_vec()).map_err(|e| e.to_string())?;
    let rest = &rest[z + 1 ..];
    let z2 = rest.iter().position(|b| *b == 0).ok_or("filter not NUL-terminated")?;
    if z2 + 1 != rest.len() {
        return Err(format!("{} trailing bytes after the filter terminator", rest.len() - z2 - 1));
    }
    Ok(MasterRequest {
        region,
        seed,
        filter: rest[.. z2].to_vec(),
    })
}

/// Serves a fixed sequence of pages: request i gets page i (silent afterwards).
pub struct MasterServer {
    pub pages: Vec<Vec<Entry>>,
    pub served: usize,
    pub requests: Vec<Vec<u8>>,
}

impl MasterServer {
    pub fn new(pages: Vec<Vec<Entry>>) -> Self {
        Self {
            pages,
            served: 0,
            requests: Vec::new(),
        }
    }
}

impl Responder for MasterServer {
    fn on_datagram(&mut self, _c: &ConnInfo, data: &[u8]) -> Vec<Vec<u8>> {
        self.requests.push(data.to_vec());
        if self.served < self.pages.len() {
            let p = page_datagram(&self.pages[self.served]);
            self.served += 1;
            vec![p]
        } else {
            vec![]
        }
    }
}
