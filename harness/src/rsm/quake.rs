//! Quake 1 / 2 / 3 status reference server (node-gamedig quake{1,2,3}.js).

use super::*;
use crate::vnet::{Chooser, ConnInfo, Responder};
use gamedig::protocols::quake;
use std::collections::HashMap;

#[derive(Clone, Copy, Debug, PartialEq, Eq, Hash)]
pub enum Ver {
    One,
    Two,
    Three,
}

impl Ver {
    pub fn request(self) -> Vec<u8> {
        let mut b = vec![0xFF, 0xFF, 0xFF, 0xFF];
        b.extend_from_slice(match self {
            Ver::One | Ver::Two => b"status",
            Ver::Three => b"getstatus",
        });
        b.push(0);
        b
    }
    pub fn header(self) -> &'static [u8] {
        match self {
            Ver::One => b"n",
            Ver::Two => b"print\n",
            Ver::Three => b"statusResponse\n",
        }
    }
}

#[derive(Clone, Debug, PartialEq)]
pub struct QPlayer {
    // Q1 only
    pub id: u8,
    pub time: u16,
    pub skin: String,
    pub c1: u8,
    pub c2: u8,
    // all
    pub score: i32,
    pub ping: u16,
    pub name: String,
    pub quoted: bool,
    /// Q2/Q3 optional address field
    pub address: Option<String>,
}

#[derive(Clone, Debug, PartialEq)]
pub struct QState {
    pub ver: Ver,
    /// (key, value) in order; includes the aliased keys chosen by the generator
    pub vars: Vec<(String, String)>,
    pub players: Vec<QPlayer>,
    /// how the datagram ends: 0 = after the last line feed, 1 = with a NUL after it (as the in-code comment
    /// describes), 2 = directly after the last line, which is not closed by a line feed
    pub ending: u8,
}

impl QState {
    pub fn datagram(&self) -> Vec<u8> {
        let mut b = vec![0xFF, 0xFF, 0xFF, 0xFF];
        b.extend_from_slice(self.ver.header());
        for (k, v) in &self.vars {
            b.push(b'\\');
            b.extend_from_slice(k.as_bytes());
            b.push(b'\\');
            b.extend_from_slice(v.as_bytes());
        }
        b.push(b'\n');
        for p in &self.players {
            let name = if p.quoted { format!("\"{}\"", p.name) } else { p.name.clone() };
            let line = match self.ver {
                Ver::One => {
                    format!(
                        "{} {} {} {} {} \"{}\" {} {}",
                        p.id, p.score, p.time, p.ping, name, p.skin, p.c1, p.c2
                    )
                }
                _ => {
                    match &p.address {
                        Some(a) => format!("{} {} {} \"{}\"", p.score, p.ping, name, a),
                        None => format!("{} {} {}", p.score, p.ping, name),
                    }
                }
            };
            b.extend_from_slice(line.as_bytes());
            b.push(b'\n');
        }
        match self.ending {
            1 => b.push(0),
            2 => {
                b.pop();
            }
            _ => {}
        }
        b
    }

    fn take(vars: &mut HashMap<String, String>, a: &str, b: &str) -> Option<String> {
        vars.remove(a).or_else(|| vars.remove(b))
    }

    /// (name, map, max, version, unused)
    pub fn expected_common(&self) -> (String, String, u8, Option<String>, HashMap<String, String>) {
        let mut vars: HashMap<String, String> = self.vars.iter().cloned().collect();
        let name = Self::take(&mut vars, "hostname", "sv_hostname").unwrap();
        let map = Self::take(&mut vars, "mapname", "map").unwrap();
        let max = Self::take(&mut vars, "maxclients", "sv_maxclients")
            .unwrap()
            .parse()
            .unwrap();
        let version = Self::take(&mut vars, "version", "*version");
        (name, map, max, version, vars)
    }

    pub fn expected_one(&self) -> quake::Response<quake::one::Player> {
        let (name, map, max, version, unused) = self.expected_common();
        quake::Response {
            name,
            map,
            players: self
                .players
                .iter()
                .map(|p| {
                    quake::one::Player {
                        id: p.id,
                        score: p.score as u16,
                        time: p.time,
                        ping: p.ping,
                        name: p.name.clone(),
                        skin: p.skin.clone(),
                        color_primary: p.c1,
                        color_secondary: p.c2,
                    }
                })
                .collect(),
            players_online: self.players.len() as u8,
            players_maximum: max,
            game_version: version,
            unused_entries: unused,
        }
    }

    pub fn expected_two(&self) -> quake::Response<quake::two::Player> {
        let (name, map, max, version, unused) = self.expected_common();
        quake::Response {
            name,
            map,
            players: self
                .players
                .iter()
                .map(|p| {
                    quake::two::Player {
                        score: p.score,
                        ping: p.ping,
                        name: p.name.clone(),
                        address: p.address.clone(),
                    }
                })
                .collect(),
            players_online: self.players.len() as u8,
            players_maximum: max,
            game_version: version,
            unused_entries: unused,
        }
    }
}

/// strings valid inside a quake info string value
fn qstr(c: &mut Chooser, default: &str) -> String {
    pick(c, &[
        default.to_string(),
        String::new(),
        "a".to_string(),
        "Zürich 東京".to_string(),
        "with space".to_string(),
        long_string(120),
    ])
}

pub fn gen_quake(c: &mut Chooser, ver: Ver, player_counts: &[usize], names_with_spaces: bool) -> QState {
    let mut vars: Vec<(String, String)> = Vec::new();
    // aliased keys: which spelling(s) are present
    let host = qstr(c, "A Quake server");
    match pick(c, &[0u8, 1, 2]) {
        0 => vars.push(("hostname".into(), host)),
        1 => vars.push(("sv_hostname".into(), host)),
        _ => {
            vars.push(("hostname".into(), host));
            vars.push(("sv_hostname".into(), "other host".into()));
        }
    }
    let map = qstr(c, "q3dm17");
    match pick(c, &[0u8, 1, 2]) {
        0 => vars.push(("mapname".into(), map)),
        1 => vars.push(("map".into(), map)),
        _ => {
            vars.push(("mapname".into(), map));
            vars.push(("map".into(), "othermap".into()));
        }
    }
    let max = pick(c, &u8_alts(16)).to_string();
    match pick(c, &[0u8, 1, 2]) {
        0 => vars.push(("maxclients".into(), max)),
        1 => vars.push(("sv_maxclients".into(), max)),
        _ => {
            vars.push(("maxclients".into(), max));
            vars.push(("sv_maxclients".into(), "3".into()));
        }
    }
    let version = qstr(c, "Q3 1.32c linux-i386");
    match pick(c, &[0u8, 1, 2, 3]) {
        0 => vars.push(("version".into(), version)),
        1 => vars.push(("*version".into(), version)),
        2 => {
            vars.push(("version".into(), version));
            vars.push(("*version".into(), "other".into()));
        }
        _ => {}
    }
    let n_extra = pick(c, &[2usize, 0, 5]);
    for i in 0 .. n_extra {
        vars.push((
            pick(c, &[format!("g_var{i}"), format!("sv key {i}"), format!("*gamedir{i}"), format!("sv_maxRate{i}"), format!("Q2Admin{i}")]),
            qstr(c, "1"),
        ));
    }
    // variable order is not significant: optionally rotate
    let rot = pick(c, &[0usize, 1, 3]);
    let l = vars.len();
    vars.rotate_left(rot % l.max(1));

    let n = pick(c, player_counts);
    let players = (0 .. n)
        .map(|i| {
            if i < 2 {
                let name = if names_with_spaces {
                    // (blanks at the edges of a quoted name belong to the name)
                    pick(c, &["Al ice".to_string(), "a b c".to_string(), " pad me ".to_string(), "  lead".to_string(), "trail  ".to_string()])
                } else {
                    pick(c, &[
                        if i == 0 { "Alice".to_string() } else { "Bob".to_string() },
                        "a".to_string(),
                        "Zürich".to_string(),
                        "^1Red^7Name".to_string(),
                        String::new(),
                    ])
                };
                QPlayer {
                    id: pick(c, &u8_alts(i as u8)),
                    time: pick(c, &u16_alts(120)),
                    skin: pick(c, &["base".to_string(), String::new(), "skin_x".to_string()]),
                    c1: pick(c, &u8_alts(4)),
                    c2: pick(c, &u8_alts(13)),
                    score: if ver == Ver::One {
                        pick(c, &[9i32, 0, 65535])
                    } else {
                        pick(c, &i32_alts(9 + i as i32))
                    },
                    ping: pick(c, &u16_alts(48)),
                    name,
                    quoted: names_with_spaces || pick(c, &[true, false]),
                    address: if ver == Ver::One {
                        None
                    } else {
                        pick(c, &[None, Some("10.0.0.1:27960".to_string()), Some(String::new())])
                    },
                }
            } else {
                // (short lines: a status reply is a single datagram of at most 1400 bytes)
                QPlayer {
                    id: i as u8,
                    time: 0,
                    skin: String::new(),
                    c1: 1,
                    c2: 2,
                    score: i as i32,
                    ping: 1,
                    name: format!("p{i}"),
                    quoted: true,
                    address: None,
                }
            }
        })
        .collect();
    QState {
        ver,
        vars,
        players,
        ending: pick(c, &[0u8, 1, 2]),
    }
}

pub struct QuakeServer {
    pub state: QState,
}

impl Responder for QuakeServer {
    fn on_datagram(&mut self, _c: &ConnInfo, data: &[u8]) -> Vec<Vec<u8>> {
        if data == self.state.ver.request().as_slice() {
            vec![self.state.datagram()]
        } else {
            vec![]
        }
    }
}
