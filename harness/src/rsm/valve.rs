//! Valve A2S reference server (Valve developer wiki, "Server queries").

use super::*;
use crate::vnet::{Chooser, ConnInfo, Responder};
use gamedig::protocols::valve::{
    self,
    Engine,
    Environment,
    ExtraData,
    ModData,
    Server,
    ServerInfo,
    ServerPlayer,
    TheShip,
};
use std::collections::HashMap;

#[derive(Clone, Debug, PartialEq)]
pub struct Edf {
    pub port: Option<u16>,
    pub steam_id: Option<u64>,
    pub tv: Option<(u16, String)>,
    pub keywords: Option<String>,
    pub game_id: Option<u64>,
}

impl Edf {
    pub fn flag(&self) -> u8 {
        (if self.port.is_some() { 0x80 } else { 0 })
            | (if self.steam_id.is_some() { 0x10 } else { 0 })
            | (if self.tv.is_some() { 0x40 } else { 0 })
            | (if self.keywords.is_some() { 0x20 } else { 0 })
            | (if self.game_id.is_some() { 0x01 } else { 0 })
    }
}

#[derive(Clone, Debug, PartialEq)]
pub struct GoldMod {
    pub link: String,
    pub download: String,
    pub version: u32,
    pub size: u32,
    pub mp_only: u8,
    pub own_dll: u8,
}

#[derive(Clone, Debug, PartialEq)]
pub struct Info {
    pub protocol: u8,
    pub name: String,
    pub map: String,
    pub folder: String,
    pub game: String,
    pub appid: u16,
    pub players: u8,
    pub max: u8,
    pub bots: u8,
    pub server_type: u8,
    pub env: u8,
    pub visibility: u8,
    pub vac: u8,
    pub ship: Option<(u8, u8, u8)>,
    pub version: String,
    /// None = the packet ends after the version string
    pub edf: Option<Edf>,
    /// obsolete GoldSrc layout only
    pub address: String,
    pub gold_mod: Option<GoldMod>,
}

#[derive(Clone, Debug, PartialEq)]
pub struct Player {
    pub index: u8,
    pub name: String,
    pub score: i32,
    pub duration: f32,
    pub ship: Option<(u32, u32)>,
}

#[derive(Clone, Debug, PartialEq)]
pub struct State {
    pub info: Info,
    pub players: Vec<Player>,
    pub rules: Vec<(String, String)>,
}

/// How one reply is put on the wire.
#[derive(Clone, Debug, PartialEq)]
pub enum Framing {
    Single,
    /// Source split: cut offsets into the payload, optional bzip2, with or
    /// without the size field (protocol-7 CS:S has none)
    Source {
        cuts: Vec<usize>,
        compressed: bool,
        size_field: bool,
        /// announce, as real servers do, the size at which the reply was actually split (the largest fragment payload:
        /// every fragment but the last is exactly that long when the cuts are even) instead of the default 1248
        exact_size: bool,
        id: u32,
    },
    /// GoldSrc split (nibble header)
    Gold { cuts: Vec<usize>, id: u32 },
}

#[derive(Clone, Debug, PartialEq)]
pub struct Transport {
    pub info: Framing,
    pub players: Framing,
    pub rules: Framing,
    /// number of challenge replies before the real answer, per request kind
    pub rounds: [usize; 3],
    /// challenge values handed out, in order (cycled)
    pub challenges: Vec<[u8; 4]>,
    /// answer info with the obsolete GoldSrc layout ('m')
    pub obsolete_info: bool,
    /// order in which the datagrams of one split answer reach the client (UDP promises none): 0 as sent, 1 reversed,
    /// 2 rotated left by one (fragment 1 first, fragment 0 last)
    pub delivery: u8,
}

impl Default for Transport {
    fn default() -> Self {
        Self {
            info: Framing::Single,
            players: Framing::Single,
            rules: Framing::Single,
            rounds: [0, 0, 0],
            challenges: vec![[0x4b, 0xa1, 0xd5, 0x22], [0x0a, 0x00, 0xff, 0x5c], [0x01, 0x02, 0x03, 0x04]],
            obsolete_info: false,
            delivery: 0,
        }
    }
}

// ---------------------------------------------------------------------------
// encoding

pub fn info_body(i: &Info, obsolete: bool) -> Vec<u8> {
    let mut b = vec![0xFF, 0xFF, 0xFF, 0xFF];
    if obsolete {
        b.push(0x6D);
        cstr(&mut b, &i.address);
        cstr(&mut b, &i.name);
        cstr(&mut b, &i.map);
        cstr(&mut b, &i.folder);
        cstr(&mut b, &i.game);
        b.push(i.players);
        b.push(i.max);
        b.push(i.protocol);
        b.push(i.server_type);
        b.push(i.env);
        b.push(i.visibility);
        match &i.gold_mod {
            None => b.push(0),
            Some(m) => {
                b.push(1);
                cstr(&mut b, &m.link);
                cstr(&mut b, &m.download);
                b.push(0); // NULL byte (wiki table)
                b.extend_from_slice(&m.version.to_le_bytes());
                b.extend_from_slice(&m.size.to_le_bytes());
                b.push(m.mp_only);
                b.push(m.own_dll);
            }
        }
        b.push(i.vac);
        b.push(i.bots);
        return b;
    }
    b.push(0x49);
    b.push(i.protocol);
    cstr(&mut b, &i.name);
    cstr(&mut b, &i.map);
    cstr(&mut b, &i.folder);
    cstr(&mut b, &i.game);
    b.extend_from_slice(&i.appid.to_le_bytes());
    b.push(i.players);
    b.push(i.max);
    b.push(i.bots);
    b.push(i.server_type);
    b.push(i.env);
    b.push(i.visibility);
    b.push(i.vac);
    if let Some((mode, wit, dur)) = i.ship {
        b.push(mode);
        b.push(wit);
        b.push(dur);
    }
    cstr(&mut b, &i.version);
    if let Some(e) = &i.edf {
        b.push(e.flag());
        if let Some(p) = e.port {
            b.extend_from_slice(&p.to_le_bytes());
        }
        if let Some(s) = e.steam_id {
            b.extend_from_slice(&s.to_le_bytes());
        }
        if let Some((p, n)) = &e.tv {
            b.extend_from_slice(&p.to_le_bytes());
            cstr(&mut b, n);
        }
        if let Some(k) = &e.keywords {
            cstr(&mut b, k);
        }
        if let Some(g) = e.game_id {
            b.extend_from_slice(&g.to_le_bytes());
        }
    }
    b
}

pub fn players_body(players: &[Player]) -> Vec<u8> {
    let mut b = vec![0xFF, 0xFF, 0xFF, 0xFF, 0x44, players.len() as u8];
    for p in players {
        b.push(p.index);
        cstr(&mut b, &p.name);
        b.extend_from_slice(&p.score.to_le_bytes());
        b.extend_from_slice(&p.duration.to_le_bytes());
        // The Ship: the implementation's layout (deaths, money after each
        // player) — see DESIGN Appendix A, "unasserted"
        if let Some((d, m)) = p.ship {
            b.extend_from_slice(&d.to_le_bytes());
            b.extend_from_slice(&m.to_le_bytes());
        }
    }
    b
}

pub fn rules_body(rules: &[(String, String)]) -> Vec<u8> {
    let mut b = vec![0xFF, 0xFF, 0xFF, 0xFF, 0x45];
    b.extend_from_slice(&(rules.len() as u16).to_le_bytes());
    for (k, v) in rules {
        cstr(&mut b, k);
        cstr(&mut b, v);
    }
    b
}

thread_local! {
    static BZ_CACHE: std::cell::RefCell<HashMap<(u8, Vec<u8>), Vec<u8>>> = std::cell::RefCell::new(HashMap::new());
    /// bzip2 block size of the reference server, in units of 100 kB (1..=9; 9 is the library default). A reply longer than
    /// one block is a multi-block stream.
    static BZ_LEVEL: std::cell::Cell<u8> = const { std::cell::Cell::new(9) };
}

/// Set the reference server's bzip2 block size (100 kB units) for the frames built on this thread from now on.
pub fn set_bz_level(level: u8) { BZ_LEVEL.with(|l| l.set(level.clamp(1, 9))) }

fn bz(data: &[u8]) -> Vec<u8> {
    let level = BZ_LEVEL.with(|l| l.get());
    BZ_CACHE.with(|c| {
        if let Some(v) = c.borrow().get(&(level, data.to_vec())) {
            return v.clone();
        }
        let v = crate::rsm::bz2_compress_level(data, level);
        c.borrow_mut().insert((level, data.to_vec()), v.clone());
        v
    })
}

pub fn frame(payload: &[u8], framing: &Framing) -> Vec<Vec<u8>> {
    match framing {
        Framing::Single => vec![payload.to_vec()],
        Framing::Source {
            cuts,
            compressed,
            size_field,
            exact_size,
            id,
        } => {
            let (wire, id, extra) = if *compressed {
                let z = bz(payload);
                let mut extra = Vec::new();
                extra.extend_from_slice(&(payload.len() as u32).to_le_bytes());
                extra.extend_from_slice(&crc32fast::hash(payload).to_le_bytes());
                (z, id | 0x8000_0000, Some(extra))
            } else {
                (payload.to_vec(), id & 0x7fff_ffff, None)
            };
            let cuts: Vec<usize> = if *compressed {
                // cut offsets are given relative to the uncompressed payload:
                // rescale to the compressed length
                cuts.iter()
                    .map(|c| (c * wire.len() / payload.len().max(1)).clamp(1, wire.len().max(2) - 1))
                    .collect()
            } else {
                cuts.clone()
            };
            let parts = cut(&wire, &cuts);
            let total = parts.len() as u8;
            let announced: u16 = if *exact_size { parts.iter().map(|p| p.len()).max().unwrap_or(1248).min(0xffff) as u16 } else { 1248 };
            parts
                .iter()
                .enumerate()
                .map(|(n, part)| {
                    let mut d = vec![0xFE, 0xFF, 0xFF, 0xFF];
                    d.extend_from_slice(&id.to_le_bytes());
                    d.push(total);
                    d.push(n as u8);
                    if *size_field {
                        d.extend_from_slice(&announced.to_le_bytes());
                    }
                    if n == 0 {
                        if let Some(e) = &extra {
                            d.extend_from_slice(e);
                        }
                    }
                    d.extend_from_slice(part);
                    d
                })
                .collect()
        }
        Framing::Gold { cuts, id } => {
            let parts = cut(payload, cuts);
            let total = parts.len() as u8;
            parts
                .iter()
                .enumerate()
                .map(|(n, part)| {
                    let mut d = vec![0xFE, 0xFF, 0xFF, 0xFF];
                    d.extend_from_slice(&id.to_le_bytes());
                    d.push(((n as u8) << 4) | (total & 0x0f));
                    d.extend_from_slice(part);
                    d
                })
                .collect()
        }
    }
}

// ---------------------------------------------------------------------------
// the server

pub struct ValveServer {
    pub state: State,
    pub transport: Transport,
    issued: [usize; 3],
    next_challenge: usize,
    last: [Option<[u8; 4]>; 3],
    /// requests that did not carry the challenge the server had issued
    pub bad_challenge: usize,
}

impl ValveServer {
    pub fn new(state: State, transport: Transport) -> Self {
        Self {
            state,
            transport,
            issued: [0; 3],
            next_challenge: 0,
            last: [None; 3],
            bad_challenge: 0,
        }
    }
}

pub const INFO_PAYLOAD: &[u8] = b"Source Engine Query\0";

impl Responder for ValveServer {
    fn on_datagram(&mut self, _conn: &ConnInfo, data: &[u8]) -> Vec<Vec<u8>> {
        if data.len() < 5 || data[.. 4] != [0xFF, 0xFF, 0xFF, 0xFF] {
            return vec![];
        }
        let kind = data[4];
        let rest = &data[5 ..];
        let (k, carried): (usize, Option<[u8; 4]>) = match kind {
            0x54 => {
                if !rest.starts_with(INFO_PAYLOAD) {
                    return vec![];
                }
                let tail = &rest[INFO_PAYLOAD.len() ..];
                match tail.len() {
                    0 => (0, None),
                    4 => (0, Some([tail[0], tail[1], tail[2], tail[3]])),
                    _ => return vec![],
                }
            }
            0x55 | 0x56 => {
                if rest.len() != 4 {
                    return vec![];
                }
                (
                    if kind == 0x55 { 1 } else { 2 },
                    Some([rest[0], rest[1], rest[2], rest[3]]),
                )
            }
            _ => return vec![],
        };
        if self.issued[k] < self.transport.rounds[k] {
            // a request that already carries a previously issued challenge must echo it exactly
            if self.issued[k] > 0 && carried != self.last[k] {
                self.bad_challenge += 1;
                return vec![];
            }
            let c = self.transport.challenges[self.next_challenge % self.transport.challenges.len()];
            self.next_challenge += 1;
            self.issued[k] += 1;
            self.last[k] = Some(c);
            return vec![vec![0xFF, 0xFF, 0xFF, 0xFF, 0x41, c[0], c[1], c[2], c[3]]];
        }
        if self.transport.rounds[k] > 0 && carried != self.last[k] {
            self.bad_challenge += 1;
            return vec![];
        }
        let mut out = match k {
            0 => frame(&info_body(&self.state.info, self.transport.obsolete_info), &self.transport.info),
            1 => frame(&players_body(&self.state.players), &self.transport.players),
            _ => frame(&rules_body(&self.state.rules), &self.transport.rules),
        };
        match self.transport.delivery {
            1 => out.reverse(),
            2 if out.len() > 1 => out.rotate_left(1),
            _ => {}
        }
        out
    }
}

// ---------------------------------------------------------------------------
// expectation

fn server_type(b: u8) -> Server {
    match b.to_ascii_lowercase() {
        b'd' => Server::Dedicated,
        b'l' => Server::NonDedicated,
        _ => Server::TV,
    }
}
fn environment(b: u8) -> Environment {
    match b.to_ascii_lowercase() {
        b'l' => Environment::Linux,
        b'w' => Environment::Windows,
        _ => Environment::Mac,
    }
}

pub fn expected_info(i: &Info, obsolete: bool) -> ServerInfo {
    if obsolete {
        return ServerInfo {
            protocol_version: i.protocol,
            name: i.name.clone(),
            map: i.map.clone(),
            folder: i.folder.clone(),
            game_mode: i.game.clone(),
            appid: 0,
            players_online: i.players,
            players_maximum: i.max,
            players_bots: i.bots,
            server_type: server_type(i.server_type),
            environment_type: environment(i.env),
            has_password: i.visibility == 1,
            vac_secured: i.vac == 1,
            the_ship: None,
            game_version: String::new(),
            extra_data: None,
            is_mod: i.gold_mod.is_some(),
            mod_data: i.gold_mod.as_ref().map(|m| {
                ModData {
                    link: m.link.clone(),
                    download_link: m.download.clone(),
                    version: m.version,
                    size: m.size,
                    multiplayer_only: m.mp_only == 1,
                    has_own_dll: m.own_dll == 1,
                }
            }),
        };
    }
    let mut appid = i.appid as u32;
    if let Some(e) = &i.edf {
        if let Some(g) = e.game_id {
            appid = (g & 0x00ff_ffff) as u32;
        }
    }
    ServerInfo {
        protocol_version: i.protocol,
        name: i.name.clone(),
        map: i.map.clone(),
        folder: i.folder.clone(),
        game_mode: i.game.clone(),
        appid,
        players_online: i.players,
        players_maximum: i.max,
        players_bots: i.bots,
        server_type: server_type(i.server_type),
        environment_type: environment(i.env),
        has_password: i.visibility == 1,
        vac_secured: i.vac == 1,
        the_ship: i.ship.map(|(mode, witnesses, duration)| {
            TheShip {
                mode,
                witnesses,
                duration,
            }
        }),
        game_version: i.version.clone(),
        extra_data: i.edf.as_ref().map(|e| {
            ExtraData {
                port: e.port,
                steam_id: e.steam_id,
                tv_port: e.tv.as_ref().map(|t| t.0),
                tv_name: e.tv.as_ref().map(|t| t.1.clone()),
                keywords: e.keywords.clone(),
                game_id: e.game_id,
            }
        }),
        is_mod: false,
        mod_data: None,
    }
}

pub fn expected_players(ps: &[Player]) -> Vec<ServerPlayer> {
    ps.iter()
        .map(|p| {
            ServerPlayer {
                name: p.name.clone(),
                score: p.score,
                duration: p.duration,
                deaths: p.ship.map(|s| s.0),
                money: p.ship.map(|s| s.1),
            }
        })
        .collect()
}

pub fn expected_rules(rules: &[(String, String)], engine: &Engine) -> HashMap<String, String> {
    let mut m: HashMap<String, String> = rules.iter().cloned().collect();
    if *engine == Engine::new(632_360) {
        m.remove("Test");
    }
    m
}

pub fn expected(state: &State, obsolete: bool, engine: &Engine, want_players: bool, want_rules: bool) -> valve::Response {
    valve::Response {
        info: expected_info(&state.info, obsolete),
        players: if want_players { Some(expected_players(&state.players)) } else { None },
        rules: if want_rules { Some(expected_rules(&state.rules, engine)) } else { None },
    }
}

// ---------------------------------------------------------------------------
// state generation (every field is a recorded choice point; index 0 = default)

#[derive(Clone, Copy, Debug, PartialEq, Eq)]
pub enum Layout {
    Source,
    Ship,
    Obsolete,
}

pub fn gen_edf(c: &mut Chooser, mask: u8) -> Edf {
    Edf {
        port: if mask & 0x80 != 0 { Some(pick(c, &u16_alts(27015))) } else { None },
        steam_id: if mask & 0x10 != 0 {
            Some(pick(c, &u64_alts(90_071_992_547_409_920)))
        } else {
            None
        },
        tv: if mask & 0x40 != 0 {
            Some((pick(c, &u16_alts(27020)), pick_str(c, "SourceTV")))
        } else {
            None
        },
        keywords: if mask & 0x20 != 0 { Some(pick_str(c, "alltalk,increased_maxplayers")) } else { None },
        game_id: if mask & 0x01 != 0 {
            Some(pick(c, &[
                440u64,
                0,
                0x00ff_ffff,
                0x0100_0000,
                0xffff_ffff_ff00_01b8,
                u64::MAX,
            ]))
        } else {
            None
        },
    }
}

/// `edf_mask`: None = no EDF byte at all; Some(m) = flag byte m.
pub fn gen_info(c: &mut Chooser, layout: Layout, edf_mask: Option<u8>, appid: u16, type_bytes: (u8, u8)) -> Info {
    let protocol = pick(c, &[17u8, 0, 7, 48, 255]);
    let name = pick_str(c, "A Valve server");
    let map = pick_str(c, "ctf_2fort");
    let folder = pick_str(c, "tf");
    let game = pick_str(c, "Team Fortress");
    let appid = pick(c, &[appid, 0, 0xffff]);
    let players = pick(c, &u8_alts(2));
    let max = pick(c, &u8_alts(24));
    let bots = pick(c, &u8_alts(1));
    let visibility = pick(c, &[0u8, 1, 2]);
    let vac = pick(c, &[1u8, 0, 2]);
    let ship = if layout == Layout::Ship {
        Some((
            pick(c, &u8_alts(3)),
            pick(c, &u8_alts(2)),
            pick(c, &u8_alts(9)),
        ))
    } else {
        None
    };
    let version = pick_str(c, "1.2.3.4");
    let edf = edf_mask.map(|m| gen_edf(c, m));
    let (address, gold_mod) = if layout == Layout::Obsolete {
        let address = pick(c, &[
            "127.0.0.1:27015".to_string(),
            "a".to_string(),
            long_string(250),
        ]);
        let has_mod = pick(c, &[false, true]);
        let gm = if has_mod {
            Some(GoldMod {
                link: pick_str(c, "http://example.org/mod"),
                download: pick_str(c, "http://example.org/dl"),
                version: pick(c, &u32_alts(7)),
                size: pick(c, &u32_alts(184_000_000)),
                mp_only: pick(c, &[1u8, 0, 2]),
                own_dll: pick(c, &[1u8, 0, 2]),
            })
        } else {
            None
        };
        (address, gm)
    } else {
        (String::new(), None)
    };
    Info {
        protocol,
        name,
        map,
        folder,
        game,
        appid,
        players,
        max,
        bots,
        server_type: type_bytes.0,
        env: type_bytes.1,
        visibility,
        vac,
        ship,
        version,
        edf,
        address,
        gold_mod,
    }
}

pub fn gen_players(c: &mut Chooser, layout: Layout, counts: &[usize]) -> Vec<Player> {
    let n = pick(c, counts);
    (0 .. n)
        .map(|i| {
            if i < 2 {
                Player {
                    index: pick(c, &[i as u8, 0, 255]),
                    name: pick_str(c, if i == 0 { "Alice" } else { "Bob the Builder" }),
                    score: pick(c, &i32_alts(10 + i as i32)),
                    duration: pick(c, &f32_alts(123.5 + i as f32)),
                    ship: if layout == Layout::Ship {
                        Some((pick(c, &u32_alts(3)), pick(c, &u32_alts(1500))))
                    } else {
                        None
                    },
                }
            } else {
                Player {
                    index: i as u8,
                    name: format!("player{i}"),
                    score: i as i32 * 3 - 7,
                    duration: i as f32 * 1.25,
                    ship: if layout == Layout::Ship { Some((i as u32, 100 * i as u32)) } else { None },
                }
            }
        })
        .collect()
}

pub fn gen_rules(c: &mut Chooser, counts: &[usize]) -> Vec<(String, String)> {
    let n = pick(c, counts);
    (0 .. n)
        .map(|i| {
            if i < 2 {
                let k = pick(c, &[
                    if i == 0 { "mp_timelimit".to_string() } else { "sv_tags".to_string() },
                    format!("k{i}"),
                    format!("Ключ{i} ☃"),
                    format!("{}{i}", long_string(200)),
                ]);
                let v = pick_str(c, if i == 0 { "30" } else { "alltalk,payload" });
                (k, v)
            } else {
                (format!("r{i}"), "v".to_string())
            }
        })
        .collect()
}

pub fn gen_state(
    c: &mut Chooser,
    layout: Layout,
    edf_mask: Option<u8>,
    appid: u16,
    type_bytes: (u8, u8),
    player_counts: &[usize],
    rule_counts: &[usize],
) -> State {
    State {
        info: gen_info(c, layout, edf_mask, appid, type_bytes),
        players: gen_players(c, layout, player_counts),
        rules: gen_rules(c, rule_counts),
    }
}

/// A fixed, fully populated seed state (used where the state is not the
/// subject: C01, C08–C11, C13, C14).
pub fn seed_state(layout: Layout, appid: u16) -> State {
    let mut c = Chooser::new(&[]);
    gen_state(
        &mut c,
        layout,
        Some(0xF1),
        appid,
        (b'd', b'l'),
        &[2],
        &[2],
    )
}

// ---------------------------------------------------------------------------
// independent reference decoder (self-check of the encoder)

pub fn self_check(state: &State, obsolete: bool) -> Result<(), String> {
    let b = info_body(&state.info, obsolete);
    let mut p = 5usize;
    fn rd_str(b: &[u8], p: &mut usize) -> Result<String, String> {
        let end = b[*p ..].iter().position(|x| *x == 0).ok_or("unterminated")? + *p;
        let s = String::from_utf8(b[*p .. end].to_vec()).map_err(|e| e.to_string())?;
        *p = end + 1;
        Ok(s)
    }
    if !obsolete {
        if b[4] != 0x49 || b[5] != state.info.protocol {
            return Err("info header".into());
        }
        p = 6;
        for want in [&state.info.name, &state.info.map, &state.info.folder, &state.info.game] {
            if &rd_str(&b, &mut p)? != want {
                return Err("info strings".into());
            }
        }
        if u16::from_le_bytes([b[p], b[p + 1]]) != state.info.appid {
            return Err("appid".into());
        }
    } else {
        if b[4] != 0x6D {
            return Err("obsolete header".into());
        }
        for want in [
            &state.info.address,
            &state.info.name,
            &state.info.map,
            &state.info.folder,
            &state.info.game,
        ] {
            if &rd_str(&b, &mut p)? != want {
                return Err("obsolete strings".into());
            }
        }
    }
    let pb = players_body(&state.players);
    if pb[5] as usize != state.players.len() & 0xff {
        return Err("player count".into());
    }
    let rb = rules_body(&state.rules);
    let mut p = 7;
    for (k, v) in &state.rules {
        if &rd_str(&rb, &mut p)? != k || &rd_str(&rb, &mut p)? != v {
            return Err("rules".into());
        }
    }
    if p != rb.len() {
        return Err("rules length".into());
    }
    Ok(())
}
