//! Minecraft reference servers (wiki.vg Server List Ping; Bedrock unconnected pong).

use super::*;
use crate::vnet::{Chooser, ConnInfo, Responder};
use gamedig::games::minecraft as mc;
use std::net::SocketAddr;

pub fn varint(mut v: i32) -> Vec<u8> {
    let mut out = Vec::new();
    let mut u = v as u32;
    loop {
        let b = (u & 0x7f) as u8;
        u >>= 7;
        if u == 0 {
            out.push(b);
            break;
        }
        out.push(b | 0x80);
    }
    v = 0;
    let _ = v;
    out
}

pub fn varint_string(s: &str) -> Vec<u8> {
    let mut b = varint(s.len() as i32);
    b.extend_from_slice(s.as_bytes());
    b
}

// ---------------------------------------------------------------------------
// Java

#[derive(Clone, Debug, PartialEq)]
pub enum Description {
    Absent,
    Text(String),
    Chat(serde_json::Value),
}

#[derive(Clone, Debug, PartialEq)]
pub struct JavaState {
    pub version_name: String,
    pub protocol: i32,
    pub max: u32,
    pub online: u32,
    pub sample: Option<Vec<(String, String)>>,
    pub description: Description,
    pub favicon: Option<String>,
    pub previews_chat: Option<bool>,
    pub enforces_secure_chat: Option<bool>,
    /// append the pong packet after the status packet
    pub with_pong: bool,
    /// extra unknown members in the JSON
    pub extra_members: bool,
}

impl JavaState {
    pub fn json(&self) -> serde_json::Value {
        use serde_json::{json, Map, Value};
        let mut players = Map::new();
        players.insert("max".into(), json!(self.max));
        players.insert("online".into(), json!(self.online));
        if let Some(s) = &self.sample {
            players.insert(
                "sample".into(),
                Value::Array(
                    s.iter()
                        .map(|(n, id)| json!({"name": n, "id": id}))
                        .collect(),
                ),
            );
        }
        let mut root = Map::new();
        root.insert(
            "version".into(),
            json!({"name": self.version_name, "protocol": self.protocol}),
        );
        root.insert("players".into(), Value::Object(players));
        match &self.description {
            Description::Absent => {}
            Description::Text(t) => {
                root.insert("description".into(), json!(t));
            }
            Description::Chat(v) => {
                root.insert("description".into(), v.clone());
            }
        }
        if let Some(f) = &self.favicon {
            root.insert("favicon".into(), json!(f));
        }
        if let Some(b) = self.previews_chat {
            root.insert("previewsChat".into(), json!(b));
        }
        if let Some(b) = self.enforces_secure_chat {
            root.insert("enforcesSecureChat".into(), json!(b));
        }
        if self.extra_members {
            root.insert("modinfo".into(), json!({"type": "FML", "modList": []}));
        }
        Value::Object(root)
    }

    pub fn stream(&self) -> Vec<u8> {
        let js = self.json().to_string();
        let mut body = vec![0x00];
        body.extend(varint_string(&js));
        let mut out = varint(body.len() as i32);
        out.extend(body);
        if self.with_pong {
            out.extend_from_slice(&[0x09, 0x01, 0, 0, 0, 0, 0, 0, 0, 0]);
        }
        out
    }

    /// Everything but `description` (compared as parsed JSON by the oracle).
    pub fn expected(&self) -> mc::JavaResponse {
        mc::JavaResponse {
            game_version: self.version_name.clone(),
            protocol_version: self.protocol,
            players_maximum: self.max,
            players_online: self.online,
            players: self.sample.as_ref().map(|s| {
                s.iter()
                    .map(|(n, id)| {
                        mc::Player {
                            name: n.clone(),
                            id: id.clone(),
                        }
                    })
                    .collect()
            }),
            description: match &self.description {
                Description::Absent => "null".to_string(),
                Description::Text(t) => serde_json::Value::String(t.clone()).to_string(),
                Description::Chat(v) => v.to_string(),
            },
            favicon: self.favicon.clone(),
            previews_chat: self.previews_chat,
            enforces_secure_chat: self.enforces_secure_chat,
            server_type: mc::Server::Java,
        }
    }
}

pub fn json_str_alts(default: &str) -> Vec<String> {
    vec![
        default.to_string(),
        String::new(),
        "quote \" backslash \\ slash / tab \t nl \n".to_string(),
        "non-BMP 𝄞 😀 and §c colour".to_string(),
        long_string(300),
    ]
}

pub fn gen_java(c: &mut Chooser) -> JavaState {
    let mut s = gen_java_unpadded(c);
    // lengths whose VarInt has a 0x80 byte (a non-final group of seven zero bits): the JSON text itself (128 k bytes) or the
    // whole packet (JSON of 128 k - 3 bytes); a textual description is lengthened until the text has that size
    if let Some(target) = pick(c, &[None, Some(256usize), Some(253), Some(384), Some(381), Some(16384), Some(16381)]) {
        let len = s.json().to_string().len();
        let mut n = target;
        while n < len {
            n += 128;
        }
        if let Description::Text(t) = &mut s.description {
            t.push_str(&"x".repeat(n - len));
        }
    }
    s
}

fn gen_java_unpadded(c: &mut Chooser) -> JavaState {
    JavaState {
        version_name: pick(c, &json_str_alts("1.20.4")),
        protocol: pick(c, &i32_alts(765)),
        max: pick(c, &u32_alts(20)),
        online: pick(c, &u32_alts(2)),
        sample: pick(c, &[
            Some(vec![
                ("Alice".to_string(), "4566e69f-c907-48ee-8d71-d7ba5aa00d20".to_string()),
                ("Bob".to_string(), "00000000-0000-0000-0000-000000000000".to_string()),
            ]),
            None,
            Some(vec![]),
            Some(vec![("quote\"d §name".to_string(), String::new())]),
            Some(
                (0 .. 12)
                    .map(|i| (format!("p{i}"), format!("id-{i}")))
                    .collect(),
            ),
        ]),
        description: pick(c, &[
            Description::Text("A Minecraft Server".into()),
            Description::Absent,
            Description::Text(String::new()),
            Description::Text("quote \" and \\ and 𝄞".into()),
            Description::Chat(serde_json::json!({"text": "Hello", "extra": [{"text": "world", "bold": true}]})),
        ]),
        favicon: pick(c, &[
            None,
            Some("data:image/png;base64,iVBORw0KGgo=".to_string()),
            Some(String::new()),
            // a real server icon: the status JSON gets far longer than 32767 bytes (the prefix counts UTF-8 bytes; the
            // often quoted limit of 32767 is one of UTF-16 units per string and does not apply to the packet)
            Some(format!("data:image/png;base64,{}", "iVBORw0KGgoAAAANSUhEUgAAAEAAAABA".repeat(1400))),
        ]),
        previews_chat: pick(c, &[None, Some(true), Some(false)]),
        enforces_secure_chat: pick(c, &[None, Some(true), Some(false)]),
        with_pong: pick(c, &[false, true]),
        extra_members: pick(c, &[false, true]),
    }
}

/// The handshake + status request + ping the protocol defines.
pub fn java_requests(hostname: &str, protocol_version: i32, port: u16) -> Vec<Vec<u8>> {
    let mut hs = vec![0x00];
    hs.extend(varint(protocol_version));
    hs.extend(varint_string(hostname));
    hs.extend_from_slice(&port.to_be_bytes());
    hs.push(0x01);
    let mut p1 = varint(hs.len() as i32);
    p1.extend(hs);
    vec![p1, vec![0x01, 0x00], vec![0x01, 0x01]]
}

/// Does the byte stream written by the client start with a well-formed
/// handshake (next state 1) followed by a status request?
pub fn is_java_request(sent: &[u8]) -> bool {
    fn rd_varint(b: &[u8], p: &mut usize) -> Option<i32> {
        let mut r: u32 = 0;
        for i in 0 .. 5 {
            let x = *b.get(*p)?;
            *p += 1;
            r |= ((x & 0x7f) as u32) << (7 * i);
            if x & 0x80 == 0 {
                return Some(r as i32);
            }
        }
        None
    }
    let mut p = 0;
    let Some(len) = rd_varint(sent, &mut p) else { return false };
    let start = p;
    if sent.get(p) != Some(&0) {
        return false;
    }
    p += 1;
    if rd_varint(sent, &mut p).is_none() {
        return false;
    }
    let Some(hl) = rd_varint(sent, &mut p) else { return false };
    p += hl as usize + 2;
    if sent.get(p) != Some(&1) {
        return false;
    }
    p += 1;
    if p - start != len as usize {
        return false;
    }
    sent[p ..].starts_with(&[0x01, 0x00])
}

// ---------------------------------------------------------------------------
// Bedrock

#[derive(Clone, Debug, PartialEq)]
pub struct BedrockState {
    /// the ';'-separated fields, at least 6
    pub fields: Vec<String>,
    pub server_guid: u64,
}

pub const BEDROCK_MAGIC: [u8; 16] = [
    0x00, 0xff, 0xff, 0x00, 0xfe, 0xfe, 0xfe, 0xfe, 0xfd, 0xfd, 0xfd, 0xfd, 0x12, 0x34, 0x56, 0x78,
];

pub fn bedrock_request() -> Vec<u8> {
    let mut b = vec![0x01, 0x11, 0x22, 0x33, 0x44, 0x55, 0x66, 0x77, 0x88];
    b.extend_from_slice(&BEDROCK_MAGIC);
    b.extend_from_slice(&[0; 8]);
    b
}

impl BedrockState {
    pub fn datagram(&self) -> Vec<u8> {
        let s = self.fields.join(";");
        let mut b = vec![0x1c, 0x11, 0x22, 0x33, 0x44, 0x55, 0x66, 0x77, 0x88];
        b.extend_from_slice(&self.server_guid.to_be_bytes());
        b.extend_from_slice(&BEDROCK_MAGIC);
        b.extend_from_slice(&(s.len() as u16).to_be_bytes());
        b.extend_from_slice(s.as_bytes());
        b
    }

    pub fn expected(&self) -> mc::BedrockResponse {
        let f = &self.fields;
        mc::BedrockResponse {
            edition: f[0].clone(),
            name: f[1].clone(),
            version_name: f[3].clone(),
            protocol_version: f[2].clone(),
            players_maximum: f[5].parse().unwrap(),
            players_online: f[4].parse().unwrap(),
            id: f.get(6).cloned(),
            map: f.get(7).cloned(),
            game_mode: f.get(8).map(|g| {
                match g.as_str() {
                    "Survival" => mc::GameMode::Survival,
                    "Creative" => mc::GameMode::Creative,
                    "Hardcore" => mc::GameMode::Hardcore,
                    "Spectator" => mc::GameMode::Spectator,
                    _ => mc::GameMode::Adventure,
                }
            }),
            server_type: mc::Server::Bedrock,
        }
    }
}

pub fn gen_bedrock(c: &mut Chooser) -> BedrockState {
    let fs = |c: &mut Chooser, d: &str| {
        pick(c, &[
            d.to_string(),
            String::new(),
            "a".to_string(),
            "Zürich 東京 §c".to_string(),
            long_string(120),
        ])
    };
    // number of fields; `true`: the last (optional) field is present but empty, i.e. the status ends in ';' - which an
    // old server with only six mandatory fields and a closing ';' also looks like
    let (n, last_empty) = pick(c, &[(12usize, false), (6, false), (7, false), (8, false), (9, false), (7, true), (8, true)]);
    let mut fields = vec![
        fs(c, "MCPE"),
        fs(c, "Dedicated Server"),
        fs(c, "649"),
        fs(c, "1.20.61"),
        pick(c, &u32_alts(3)).to_string(),
        pick(c, &u32_alts(10)).to_string(),
        fs(c, "13253860892328930865"),
        fs(c, "Bedrock level"),
        pick(c, &["Survival", "Creative", "Hardcore", "Spectator", "Adventure"]).to_string(),
        "1".to_string(),
        "19132".to_string(),
        "19133".to_string(),
    ];
    fields.truncate(n);
    if last_empty {
        fields[n - 1] = String::new();
    }
    BedrockState {
        fields,
        server_guid: pick(c, &u64_alts(0x0102_0304_0506_0708)),
    }
}

// ---------------------------------------------------------------------------
// Legacy (1.6, 1.4, beta 1.8)

#[derive(Clone, Copy, Debug, PartialEq, Eq, Hash)]
pub enum LegacyKind {
    V1_6,
    V1_4,
    VB1_8,
}

#[derive(Clone, Debug, PartialEq)]
pub struct LegacyState {
    pub kind: LegacyKind,
    pub protocol: i32,
    pub version: String,
    pub motd: String,
    pub online: u32,
    pub max: u32,
}

pub fn legacy_request(kind: LegacyKind) -> Vec<u8> {
    match kind {
        LegacyKind::V1_6 => {
            vec![
                0xfe, 0x01, 0xfa, 0x00, 0x07, 0x00, 0x47, 0x00, 0x61, 0x00, 0x6D, 0x00, 0x65, 0x00, 0x44, 0x00, 0x69, 0x00,
                0x67,
            ]
        }
        LegacyKind::V1_4 => vec![0xfe, 0x01],
        LegacyKind::VB1_8 => vec![0xfe],
    }
}

impl LegacyState {
    pub fn text(&self) -> String {
        match self.kind {
            LegacyKind::V1_6 => {
                format!(
                    "§1\0{}\0{}\0{}\0{}\0{}",
                    self.protocol, self.version, self.motd, self.online, self.max
                )
            }
            _ => format!("{}§{}§{}", self.motd, self.online, self.max),
        }
    }

    pub fn stream(&self) -> Vec<u8> {
        let units: Vec<u16> = self.text().encode_utf16().collect();
        let mut b = vec![0xFF];
        b.extend_from_slice(&(units.len() as u16).to_be_bytes());
        for u in units {
            b.extend_from_slice(&u.to_be_bytes());
        }
        b
    }

    pub fn expected(&self) -> mc::JavaResponse {
        let (game_version, protocol_version, group) = match self.kind {
            LegacyKind::V1_6 => (self.version.clone(), self.protocol, mc::LegacyGroup::V1_6),
            LegacyKind::V1_4 => ("1.4+".to_string(), -1, mc::LegacyGroup::V1_4),
            LegacyKind::VB1_8 => ("Beta 1.8+".to_string(), -1, mc::LegacyGroup::VB1_8),
        };
        mc::JavaResponse {
            game_version,
            protocol_version,
            players_maximum: self.max,
            players_online: self.online,
            players: None,
            description: self.motd.clone(),
            favicon: None,
            previews_chat: None,
            enforces_secure_chat: None,
            server_type: mc::Server::Legacy(group),
        }
    }
}

pub fn gen_legacy(c: &mut Chooser, kind: LegacyKind) -> LegacyState {
    let s16 = |c: &mut Chooser, d: &str| {
        pick(c, &[
            d.to_string(),
            String::new(),
            "a".to_string(),
            "Zürich 東京 surrogate 𝄞😀".to_string(),
            long_string(200),
        ])
    };
    LegacyState {
        kind,
        protocol: pick(c, &[78i32, 0, 1, 127, i32::MAX, -1]),
        version: s16(c, "1.6.4"),
        motd: s16(c, "A Minecraft Server"),
        // (two digits, the first of them 1: a plain-format reply "<motd>§12§20" with an empty motd starts like the §1 marker)
        online: pick(c, &u32_alts(12)),
        max: pick(c, &u32_alts(20)),
    }
}

// ---------------------------------------------------------------------------
// A server speaking any subset of the five variants (auto-detection)

#[derive(Clone, Debug)]
pub struct McServer {
    pub java: Option<JavaState>,
    pub bedrock: Option<BedrockState>,
    pub v1_6: Option<LegacyState>,
    pub v1_4: Option<LegacyState>,
    pub vb1_8: Option<LegacyState>,
    /// TCP connections are accepted at all (false: refused when no TCP variant is spoken)
    pub refuse_tcp_when_silent: bool,
}

impl McServer {
    pub fn none() -> Self {
        Self {
            java: None,
            bedrock: None,
            v1_6: None,
            v1_4: None,
            vb1_8: None,
            refuse_tcp_when_silent: false,
        }
    }
    fn any_tcp(&self) -> bool { self.java.is_some() || self.v1_6.is_some() || self.v1_4.is_some() || self.vb1_8.is_some() }
}

impl Responder for McServer {
    fn accept(&mut self, tcp: bool, _addr: &SocketAddr) -> bool { !(tcp && self.refuse_tcp_when_silent && !self.any_tcp()) }

    fn on_datagram(&mut self, _c: &ConnInfo, data: &[u8]) -> Vec<Vec<u8>> {
        match &self.bedrock {
            Some(b) if data == bedrock_request().as_slice() => vec![b.datagram()],
            _ => vec![],
        }
    }

    fn stream(&mut self, conn: &ConnInfo) -> Option<Vec<u8>> {
        let sent: Vec<u8> = conn.sent.concat();
        if let Some(j) = &self.java {
            if is_java_request(&sent) {
                return Some(j.stream());
            }
        }
        if let Some(s) = &self.v1_6 {
            if sent == legacy_request(LegacyKind::V1_6) {
                return Some(s.stream());
            }
        }
        if let Some(s) = &self.v1_4 {
            if sent == legacy_request(LegacyKind::V1_4) {
                return Some(s.stream());
            }
        }
        if let Some(s) = &self.vb1_8 {
            if sent == legacy_request(LegacyKind::VB1_8) {
                return Some(s.stream());
            }
        }
        None
    }
}
