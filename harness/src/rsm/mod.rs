//! Reference server models (DESIGN §3): deliberately boring encoders written
//! from the public format descriptions, sharing no code with /repo.

pub mod gamespy;
pub mod master;
pub mod minecraft;
pub mod misc;
pub mod quake;
pub mod unreal2;
pub mod valve;

use crate::vnet::Chooser;

/// Pick one of `alts` (index 0 is the default) as a recorded choice point.
pub fn pick<T: Clone>(c: &mut Chooser, alts: &[T]) -> T { alts[c.choose(alts.len())].clone() }

pub fn pick_idx(c: &mut Chooser, n: usize) -> usize { c.choose(n) }

/// UTF-8 strings without NUL: default, empty, one char, multi-byte, long.
pub fn str_alts(default: &str) -> Vec<String> {
    vec![
        default.to_string(),
        String::new(),
        "a".to_string(),
        "Zürich 東京 ☃ 𝄞".to_string(),
        long_string(250),
    ]
}

pub fn long_string(n: usize) -> String {
    let mut s = String::new();
    let mut i = 0;
    while s.len() < n {
        s.push((b'A' + (i % 26) as u8) as char);
        i += 1;
    }
    s
}

pub fn pick_str(c: &mut Chooser, default: &str) -> String { pick(c, &str_alts(default)) }

pub fn u8_alts(default: u8) -> Vec<u8> { vec![default, 0, 1, 127, 128, 255] }
pub fn u16_alts(default: u16) -> Vec<u16> { vec![default, 0, 1, 0x7fff, 0x8000, 0xffff, 0x0100] }
pub fn u32_alts(default: u32) -> Vec<u32> { vec![default, 0, 1, 0x7fff_ffff, 0x8000_0000, 0xffff_ffff, 0x0102_0304] }
pub fn i32_alts(default: i32) -> Vec<i32> { vec![default, 0, 1, -1, i32::MAX, i32::MIN, 0x0102_0304] }
pub fn u64_alts(default: u64) -> Vec<u64> {
    vec![
        default,
        0,
        1,
        0x7fff_ffff_ffff_ffff,
        0x8000_0000_0000_0000,
        u64::MAX,
        0x0102_0304_0506_0708,
    ]
}
pub fn f32_alts(default: f32) -> Vec<f32> { vec![default, 0.0, 1.5, -2.25, f32::MAX, f32::MIN_POSITIVE] }

pub fn cstr(out: &mut Vec<u8>, s: &str) {
    out.extend_from_slice(s.as_bytes());
    out.push(0);
}

/// Split `payload` into `k` chunks at the given cut offsets (sorted, inside).
pub fn cut(payload: &[u8], cuts: &[usize]) -> Vec<Vec<u8>> {
    let mut parts = Vec::new();
    let mut last = 0;
    for &c in cuts {
        let c = c.min(payload.len());
        parts.push(payload[last .. c].to_vec());
        last = c;
    }
    parts.push(payload[last ..].to_vec());
    parts
}

/// Evenly spaced cut offsets producing k parts.
pub fn even_cuts(len: usize, k: usize) -> Vec<usize> { (1 .. k).map(|i| len * i / k).collect() }

/// bzip2-compress with python3's stdlib (cached per payload).
pub fn bz2_compress(data: &[u8]) -> Vec<u8> { bz2_compress_level(data, 9) }

/// bzip2-compress with block size `level` x 100 kB.
pub fn bz2_compress_level(data: &[u8], level: u8) -> Vec<u8> {
    use std::io::Write;
    use std::process::{Command, Stdio};
    let armed = crate::alloc::pause();
    let mut child = Command::new("python3")
        .arg("-c")
        .arg(format!("import sys,bz2; sys.stdout.buffer.write(bz2.compress(sys.stdin.buffer.read(), {}))", level.clamp(1, 9)))
        .stdin(Stdio::piped())
        .stdout(Stdio::piped())
        .spawn()
        .expect("python3 for bz2");
    child.stdin.take().unwrap().write_all(data).unwrap();
    let out = child.wait_with_output().unwrap();
    assert!(out.status.success(), "bz2 compression failed");
    crate::alloc::resume(armed);
    out.stdout
}
