//! Single-game formats: FFOW, Savage 2, JC2-MP, Mindustry, Eco.

use super::*;
use crate::vnet::{Chooser, ConnInfo, Responder};
use gamedig::games::{ffow, jc2m, mindustry, savage2};
use gamedig::protocols::valve::{Environment, Server};

// ---------------------------------------------------------------------------
// Frontlines: Fuel of War (Valve transport, request 0x46 "LSQ")

#[derive(Clone, Debug, PartialEq)]
pub struct FfowState {
    pub protocol: u8,
    pub name: String,
    pub map: String,
    pub active_mod: String,
    pub game_mode: String,
    pub description: String,
    pub version: String,
    pub port: u16,
    pub online: u8,
    pub max: u8,
    pub server_type: u8,
    pub env: u8,
    pub password: u8,
    pub secure: u8,
    pub fps: u8,
    pub round: u8,
    pub max_rounds: u8,
    pub time_left: u16,
}

impl FfowState {
    pub fn payload(&self) -> Vec<u8> {
        let mut b = vec![0xFF, 0xFF, 0xFF, 0xFF, 0x47, self.protocol];
        cstr(&mut b, &self.name);
        cstr(&mut b, &self.map);
        cstr(&mut b, &self.active_mod);
        cstr(&mut b, &self.game_mode);
        cstr(&mut b, &self.description);
        cstr(&mut b, &self.version);
        b.extend_from_slice(&self.port.to_le_bytes());
        b.push(self.online);
        b.push(self.max);
        b.push(self.server_type);
        b.push(self.env);
        b.push(self.password);
        b.push(self.secure);
        b.push(self.fps);
        b.push(self.round);
        b.push(self.max_rounds);
        b.extend_from_slice(&self.time_left.to_le_bytes());
        b
    }

    pub fn expected(&self) -> ffow::Response {
        ffow::Response {
            protocol_version: self.protocol,
            name: self.name.clone(),
            active_mod: self.active_mod.clone(),
            game_mode: self.game_mode.clone(),
            game_version: self.version.clone(),
            description: self.description.clone(),
            map: self.map.clone(),
            players_online: self.online,
            players_maximum: self.max,
            server_type: match self.server_type.to_ascii_lowercase() {
                b'd' => Server::Dedicated,
                b'l' => Server::NonDedicated,
                _ => Server::TV,
            },
            environment_type: match self.env.to_ascii_lowercase() {
                b'l' => Environment::Linux,
                b'w' => Environment::Windows,
                _ => Environment::Mac,
            },
            has_password: self.password == 1,
            vac_secured: self.secure == 1,
            round: self.round,
            rounds_maximum: self.max_rounds,
            time_left: self.time_left,
        }
    }
}

pub fn gen_ffow(c: &mut Chooser) -> FfowState {
    FfowState {
        protocol: pick(c, &u8_alts(2)),
        name: pick_str(c, "FFOW server"),
        map: pick_str(c, "ffow-village"),
        active_mod: pick_str(c, "ffow"),
        game_mode: pick_str(c, "Frontlines"),
        description: pick_str(c, "Welcome"),
        version: pick_str(c, "1.3.0"),
        port: pick(c, &u16_alts(5476)),
        online: pick(c, &u8_alts(7)),
        max: pick(c, &u8_alts(32)),
        server_type: pick(c, &[b'd', b'l', b'p', b'D']),
        env: pick(c, &[b'w', b'l', b'm', b'W']),
        password: pick(c, &[0u8, 1, 2]),
        secure: pick(c, &[1u8, 0, 2]),
        fps: pick(c, &u8_alts(60)),
        round: pick(c, &u8_alts(3)),
        max_rounds: pick(c, &u8_alts(9)),
        time_left: pick(c, &u16_alts(754)),
    }
}

pub const FFOW_REQUEST: &[u8] = &[0xFF, 0xFF, 0xFF, 0xFF, 0x46, b'L', b'S', b'Q'];

pub struct FfowServer {
    pub state: FfowState,
    /// GoldSrc-split the reply into this many fragments (1 = single datagram)
    pub fragments: usize,
    /// issue this many challenges first
    pub rounds: usize,
    issued: usize,
    last: Option<[u8; 4]>,
}

impl FfowServer {
    pub fn new(state: FfowState, fragments: usize, rounds: usize) -> Self {
        Self {
            state,
            fragments,
            rounds,
            issued: 0,
            last: None,
        }
    }
}

impl Responder for FfowServer {
    fn on_datagram(&mut self, _c: &ConnInfo, data: &[u8]) -> Vec<Vec<u8>> {
        if data.len() < 5 || data[.. 5] != [0xFF, 0xFF, 0xFF, 0xFF, 0x46] {
            return vec![];
        }
        let rest = &data[5 ..];
        if self.issued < self.rounds {
            if self.issued == 0 && rest != b"LSQ" {
                return vec![];
            }
            if self.issued > 0 && Some(rest) != self.last.as_ref().map(|c| &c[..]) {
                return vec![];
            }
            let ch = [0x11 + self.issued as u8, 0x00, 0xFF, 0x5C];
            self.issued += 1;
            self.last = Some(ch);
            return vec![vec![0xFF, 0xFF, 0xFF, 0xFF, 0x41, ch[0], ch[1], ch[2], ch[3]]];
        }
        if self.rounds == 0 {
            if rest != b"LSQ" {
                return vec![];
            }
        } else if Some(rest) != self.last.as_ref().map(|c| &c[..]) {
            return vec![];
        }
        let p = self.state.payload();
        if self.fragments <= 1 {
            vec![p]
        } else {
            crate::rsm::valve::frame(
                &p,
                &crate::rsm::valve::Framing::Gold {
                    cuts: even_cuts(p.len(), self.fragments),
                    id: 0x55,
                },
            )
        }
    }
}

// ---------------------------------------------------------------------------
// Savage 2

#[derive(Clone, Debug, PartialEq)]
pub struct Savage2State {
    pub header: [u8; 12],
    pub name: String,
    pub online: u8,
    pub max: u8,
    pub time: String,
    pub map: String,
    pub next_map: String,
    pub location: String,
    pub min_players: u8,
    pub game_mode: String,
    pub version: String,
    pub min_level: u8,
}

impl Savage2State {
    pub fn datagram(&self) -> Vec<u8> {
        let mut b = self.header.to_vec();
        cstr(&mut b, &self.name);
        b.push(self.online);
        b.push(self.max);
        cstr(&mut b, &self.time);
        cstr(&mut b, &self.map);
        cstr(&mut b, &self.next_map);
        cstr(&mut b, &self.location);
        b.push(self.min_players);
        cstr(&mut b, &self.game_mode);
        cstr(&mut b, &self.version);
        b.push(self.min_level);
        b
    }
    pub fn expected(&self) -> savage2::Response {
        savage2::Response {
            name: self.name.clone(),
            players_online: self.online,
            players_maximum: self.max,
            players_minimum: self.min_players,
            time: self.time.clone(),
            map: self.map.clone(),
            next_map: self.next_map.clone(),
            location: self.location.clone(),
            game_mode: self.game_mode.clone(),
            protocol_version: self.version.clone(),
            level_minimum: self.min_level,
        }
    }
}

pub fn gen_savage2(c: &mut Chooser) -> Savage2State {
    Savage2State {
        header: pick(c, &[[0x9a, 0x16, 0x03, 0, 0, 0, 0, 0, 0, 0, 0, 0], [0xFF; 12], [0; 12]]),
        name: pick_str(c, "Savage 2 server"),
        online: pick(c, &u8_alts(5)),
        max: pick(c, &u8_alts(40)),
        time: pick_str(c, "12:34"),
        map: pick_str(c, "crossroads"),
        next_map: pick_str(c, "eden"),
        location: pick_str(c, "EU"),
        min_players: pick(c, &u8_alts(2)),
        game_mode: pick_str(c, "normal"),
        version: pick_str(c, "2.1.1.1"),
        min_level: pick(c, &u8_alts(1)),
    }
}

pub struct Savage2Server {
    pub state: Savage2State,
}
impl Responder for Savage2Server {
    fn on_datagram(&mut self, _c: &ConnInfo, data: &[u8]) -> Vec<Vec<u8>> {
        if data == [0x01] {
            vec![self.state.datagram()]
        } else {
            vec![]
        }
    }
}

// ---------------------------------------------------------------------------
// Just Cause 2: Multiplayer (GameSpy 3 transport, single packet)

#[derive(Clone, Debug, PartialEq)]
pub struct Jc2mState {
    pub hostname: String,
    pub version: String,
    pub description: String,
    pub password: String,
    pub maxplayers: u32,
    pub numplayers: Option<u32>,
    pub extra: Vec<(String, String)>,
    pub players: Vec<(String, String, u16)>,
    /// text of the challenge the server hands out in the GameSpy 3 handshake (any i32 in decimal)
    pub challenge: String,
}

impl Jc2mState {
    pub fn packet(&self) -> Vec<u8> {
        let mut b = vec![0x00, 0x00, 0x00, 0x00, 0x01];
        cstr(&mut b, "splitnum");
        b.push(0x80);
        b.push(0x00);
        let mut kv: Vec<(String, String)> = vec![
            ("hostname".into(), self.hostname.clone()),
            ("version".into(), self.version.clone()),
            ("description".into(), self.description.clone()),
            ("password".into(), self.password.clone()),
            ("maxplayers".into(), self.maxplayers.to_string()),
        ];
        if let Some(n) = self.numplayers {
            kv.push(("numplayers".into(), n.to_string()));
        }
        kv.extend(self.extra.iter().cloned());
        for (k, v) in kv {
            cstr(&mut b, &k);
            cstr(&mut b, &v);
        }
        b.push(0);
        b.extend_from_slice(&(self.players.len() as u16).to_be_bytes());
        for (n, s, p) in &self.players {
            cstr(&mut b, n);
            cstr(&mut b, s);
            b.extend_from_slice(&p.to_be_bytes());
        }
        b
    }
    pub fn expected(&self) -> jc2m::Response {
        let pw = self.password.to_lowercase();
        let listed = self.players.len() as u32;
        jc2m::Response {
            game_version: self.version.clone(),
            description: self.description.clone(),
            name: self.hostname.clone(),
            has_password: match pw.parse::<bool>() {
                Ok(b) => b,
                Err(_) => pw.parse::<u8>().map(|n| n != 0).unwrap_or(false),
            },
            players: self
                .players
                .iter()
                .map(|(n, s, p)| {
                    jc2m::Player {
                        name: n.clone(),
                        steam_id: s.clone(),
                        ping: *p,
                    }
                })
                .collect(),
            players_maximum: self.maxplayers,
            players_online: match self.numplayers {
                None => listed,
                Some(n) => n.max(listed),
            },
        }
    }
}

pub fn gen_jc2m(c: &mut Chooser, player_counts: &[usize]) -> Jc2mState {
    let hostname = pick_str(c, "JC2-MP server");
    let version = pick_str(c, "0.1.4");
    let description = pick_str(c, "Freeroam");
    let password = pick(c, &["0", "1", "true", "False"]).to_string();
    let maxplayers = pick(c, &u32_alts(1000));
    let n = pick(c, player_counts);
    let numplayers = pick(c, &[
        Some(n as u32),
        None,
        Some(0),
        Some(n as u32 + 5),
        Some(u32::MAX),
    ]);
    let extra = if pick(c, &[false, true]) { vec![("gamemode".to_string(), "fr".to_string())] } else { vec![] };
    let players = (0 .. n)
        .map(|i| {
            if i < 2 {
                (
                    pick_str(c, if i == 0 { "Rico" } else { "Bolo" }),
                    pick_str(c, "76561198000000000"),
                    pick(c, &u16_alts(55)),
                )
            } else {
                (format!("p{i}"), format!("7656{i}"), i as u16)
            }
        })
        .collect();
    let challenge = pick(c, &["9182736", "0", "-1", "2147483647", "-2147483648", "-1234567"]).to_string();
    Jc2mState {
        hostname,
        version,
        description,
        password,
        maxplayers,
        numplayers,
        extra,
        players,
        challenge,
    }
}

// ---------------------------------------------------------------------------
// Mindustry

#[derive(Clone, Debug, PartialEq)]
pub struct MindustryState {
    pub host: String,
    pub map: String,
    pub players: i32,
    pub wave: i32,
    pub version: i32,
    pub version_type: String,
    pub gamemode: u8,
    pub limit: i32,
    pub description: String,
    pub mode_name: Option<String>,
}

fn lstr(b: &mut Vec<u8>, s: &str) {
    assert!(s.len() <= 255);
    b.push(s.len() as u8);
    b.extend_from_slice(s.as_bytes());
}

impl MindustryState {
    pub fn datagram(&self) -> Vec<u8> {
        let mut b = Vec::new();
        lstr(&mut b, &self.host);
        lstr(&mut b, &self.map);
        b.extend_from_slice(&self.players.to_be_bytes());
        b.extend_from_slice(&self.wave.to_be_bytes());
        b.extend_from_slice(&self.version.to_be_bytes());
        lstr(&mut b, &self.version_type);
        b.push(self.gamemode);
        b.extend_from_slice(&self.limit.to_be_bytes());
        lstr(&mut b, &self.description);
        if let Some(m) = &self.mode_name {
            lstr(&mut b, m);
        }
        b
    }
    pub fn expected(&self) -> mindustry::types::ServerData {
        use mindustry::types::GameMode::*;
        mindustry::types::ServerData {
            host: self.host.clone(),
            map: self.map.clone(),
            players: self.players,
            wave: self.wave,
            version: self.version,
            version_type: self.version_type.clone(),
            gamemode: match self.gamemode {
                0 => Survival,
                1 => Sandbox,
                2 => Attack,
                3 => PVP,
                _ => Editor,
            },
            player_limit: self.limit,
            description: self.description.clone(),
            mode_name: self.mode_name.clone(),
        }
    }
}

pub fn gen_mindustry(c: &mut Chooser) -> MindustryState {
    let s = |c: &mut Chooser, d: &str| {
        pick(c, &[
            d.to_string(),
            String::new(),
            "a".to_string(),
            "Zürich 東京 ☃".to_string(),
            long_string(100),
        ])
    };
    // total datagram size: as generated, or padded (through the description, then the host name) to exactly 499 / 500
    // bytes - 500 is the largest datagram the format allows and the size of the client's receive buffer
    let pad_to = pick(c, &[0usize, 500, 499]);
    let mut st = MindustryState {
        host: s(c, "Mindustry host"),
        map: s(c, "Ancient Caldera"),
        players: pick(c, &i32_alts(4)),
        wave: pick(c, &i32_alts(27)),
        version: pick(c, &i32_alts(146)),
        version_type: s(c, "official"),
        gamemode: pick(c, &[0u8, 1, 2, 3, 4]),
        limit: pick(c, &i32_alts(0)),
        description: s(c, "A description"),
        mode_name: pick(c, &[
            None,
            Some("campaign".to_string()),
            Some(String::new()),
            Some("Zürich".to_string()),
        ]),
    };
    if pad_to > 0 {
        for _ in 0 .. 600 {
            let len = st.datagram().len();
            if len >= pad_to {
                break;
            }
            if st.description.len() < 255 {
                st.description.push('d');
            } else if st.host.len() < 255 {
                st.host.push('h');
            } else {
                break;
            }
        }
    }
    st
}

pub const MINDUSTRY_REQUEST: &[u8] = &[0xFE, 0x01];

pub struct MindustryServer {
    pub state: MindustryState,
}
impl Responder for MindustryServer {
    fn on_datagram(&mut self, _c: &ConnInfo, data: &[u8]) -> Vec<Vec<u8>> {
        if data == MINDUSTRY_REQUEST {
            vec![self.state.datagram()]
        } else {
            vec![]
        }
    }
}
