//! Unreal 2 query reference server (node-gamedig unreal2.js).

use super::*;
use crate::vnet::{Chooser, ConnInfo, Responder};
use gamedig::protocols::unreal2 as u2;
use std::collections::{HashMap, HashSet};

/// A string as the server holds it, plus how it is put on the wire.
#[derive(Clone, Debug, PartialEq)]
pub struct UStr {
    /// characters (code points < 0x100 for Latin-1 encoding), may contain
    /// colour escapes (1B r g b) and control characters 01..1A
    pub chars: Vec<char>,
    pub ucs2: bool,
    /// empty strings only: encode as a bare length byte 0 (true) or as
    /// length 1 + terminator (false)
    pub bare_empty: bool,
    /// UCS-2 only: the extra byte 01 some games insert between the length byte and the text (not counted in the length)
    pub marker: bool,
}

impl UStr {
    pub fn plain(s: &str) -> Self {
        Self {
            chars: s.chars().collect(),
            ucs2: false,
            bare_empty: true, marker: false,
        }
    }

    pub fn encode(&self, out: &mut Vec<u8>) {
        if self.chars.is_empty() && self.bare_empty {
            out.push(if self.ucs2 { 0x80 } else { 0x00 });
            if self.ucs2 && self.marker {
                out.push(0x01);
            }
            return;
        }
        if self.ucs2 {
            let units: Vec<u16> = self
                .chars
                .iter()
                .collect::<String>()
                .encode_utf16()
                .collect();
            let n = units.len() + 1;
            assert!(n <= 0x7f);
            out.push(0x80 | n as u8);
            if self.marker {
                out.push(0x01);
            }
            for u in units {
                out.extend_from_slice(&u.to_le_bytes());
            }
            out.extend_from_slice(&[0, 0]);
        } else {
            let n = self.chars.len() + 1;
            assert!(n <= 0x7f);
            out.push(n as u8);
            for ch in &self.chars {
                assert!((*ch as u32) < 0x100);
                out.push(*ch as u32 as u8);
            }
            out.push(0);
        }
    }

    /// What the client must return: colour escapes (1B + 3) and 01..1A removed.
    pub fn expected(&self) -> String {
        let mut out = String::new();
        let mut skip = 0;
        for ch in &self.chars {
            if skip > 0 {
                skip -= 1;
                continue;
            }
            if *ch == '\x1b' {
                skip = 3;
                continue;
            }
            if *ch > '\x00' && *ch <= '\x1a' {
                continue;
            }
            out.push(*ch);
        }
        out
    }
}

#[derive(Clone, Debug, PartialEq)]
pub struct UPlayer {
    pub id: u32,
    pub name: UStr,
    pub ping: u32,
    pub score: i32,
    pub stats_id: u32,
}

#[derive(Clone, Debug, PartialEq)]
pub struct UState {
    pub server_id: u32,
    pub ip: UStr,
    pub game_port: u32,
    pub query_port: u32,
    pub name: UStr,
    pub map: UStr,
    pub game_type: UStr,
    pub num_players: u32,
    pub max_players: u32,
    /// (key, value) in order, keys may repeat; "mutator" keys list mutators
    pub rules: Vec<(UStr, UStr)>,
    pub players: Vec<UPlayer>,
}

fn header(kind: u8) -> Vec<u8> { vec![0x80, 0, 0, 0, kind] }

impl UState {
    pub fn info_datagram(&self) -> Vec<u8> {
        let mut b = header(0);
        b.extend_from_slice(&self.server_id.to_le_bytes());
        self.ip.encode(&mut b);
        b.extend_from_slice(&self.game_port.to_le_bytes());
        b.extend_from_slice(&self.query_port.to_le_bytes());
        self.name.encode(&mut b);
        self.map.encode(&mut b);
        self.game_type.encode(&mut b);
        b.extend_from_slice(&self.num_players.to_le_bytes());
        b.extend_from_slice(&self.max_players.to_le_bytes());
        b
    }

    /// Rules in `k` datagrams (cut at pair boundaries, evenly).
    pub fn rules_datagrams(&self, k: usize) -> Vec<Vec<u8>> {
        let k = k.max(1);
        let n = self.rules.len();
        (0 .. k)
            .map(|i| {
                let mut b = header(1);
                for (key, val) in &self.rules[n * i / k .. n * (i + 1) / k] {
                    key.encode(&mut b);
                    val.encode(&mut b);
                }
                b
            })
            .collect()
    }

    pub fn players_datagrams(&self, k: usize) -> Vec<Vec<u8>> {
        let k = k.max(1);
        let n = self.players.len();
        (0 .. k)
            .map(|i| {
                let mut b = header(2);
                for p in &self.players[n * i / k .. n * (i + 1) / k] {
                    b.extend_from_slice(&p.id.to_le_bytes());
                    p.name.encode(&mut b);
                    b.extend_from_slice(&p.ping.to_le_bytes());
                    b.extend_from_slice(&p.score.to_le_bytes());
                    b.extend_from_slice(&p.stats_id.to_le_bytes());
                }
                b
            })
            .collect()
    }

    pub fn expected_info(&self) -> u2::ServerInfo {
        let mut password = false;
        let mut pw = String::new();
        let mut seen = false;
        for (k, v) in &self.rules {
            if k.expected() == "GamePassword" {
                seen = true;
                pw.push_str(&v.expected());
            }
        }
        if seen {
            password = pw.to_lowercase() == "true";
        }
        u2::ServerInfo {
            server_id: self.server_id,
            ip: self.ip.expected(),
            game_port: self.game_port,
            query_port: self.query_port,
            name: self.name.expected(),
            map: self.map.expected(),
            game_type: self.game_type.expected(),
            num_players: self.num_players,
            max_players: self.max_players,
            password,
        }
    }

    pub fn expected_rules(&self) -> u2::MutatorsAndRules {
        let mut mutators = HashSet::new();
        let mut rules: HashMap<String, Vec<String>> = HashMap::new();
        for (k, v) in &self.rules {
            let k = k.expected();
            if k.eq_ignore_ascii_case("mutator") {
                mutators.insert(v.expected());
            } else {
                rules.entry(k).or_default().push(v.expected());
            }
        }
        u2::MutatorsAndRules { mutators, rules }
    }

    pub fn expected_players(&self) -> u2::Players {
        let conv = |p: &UPlayer| {
            u2::Player {
                id: p.id,
                name: p.name.expected(),
                ping: p.ping,
                score: p.score,
                stats_id: p.stats_id,
            }
        };
        u2::Players {
            players: self.players.iter().filter(|p| p.ping != 0).map(conv).collect(),
            bots: self.players.iter().filter(|p| p.ping == 0).map(conv).collect(),
        }
    }

    pub fn expected(&self, want_rules: bool, want_players: bool) -> u2::Response {
        let mut info = self.expected_info();
        if !want_rules {
            info.password = false;
        }
        u2::Response {
            server_info: info,
            mutators_and_rules: if want_rules { self.expected_rules() } else { u2::MutatorsAndRules::default() },
            players: if want_players {
                self.expected_players()
            } else {
                u2::Players {
                    players: vec![],
                    bots: vec![],
                }
            },
        }
    }
}

/// Content classes for one string (within the documented domain: Latin-1
/// payload bytes outside 80..9F; colour components non-zero).
pub fn ustr_alts(default: &str) -> Vec<UStr> {
    let d: Vec<char> = default.chars().collect();
    let mut v = vec![UStr::plain(default)];
    // empty, both spellings
    v.push(UStr {
        chars: vec![],
        ucs2: false,
        bare_empty: true, marker: false,
    });
    v.push(UStr {
        chars: vec![],
        ucs2: false,
        bare_empty: false, marker: false,
    });
    // high Latin-1
    v.push(UStr::plain("Zürich café ÿ"));
    // long strings (length bytes 0x3D and 0x7F)
    v.push(UStr::plain(&long_string(60)));
    v.push(UStr::plain(&long_string(126)));
    // colour escape at start / middle / end / back to back
    let col = ['\x1b', '\u{40}', '\u{ff}', '\u{10}'];
    let mut s = col.to_vec();
    s.extend(d.iter());
    v.push(UStr {
        chars: s,
        ucs2: false,
        bare_empty: true, marker: false,
    });
    let mut s: Vec<char> = d[.. d.len() / 2].to_vec();
    s.extend(col);
    s.extend(&d[d.len() / 2 ..]);
    v.push(UStr {
        chars: s,
        ucs2: false,
        bare_empty: true, marker: false,
    });
    let mut s = d.clone();
    s.extend(col);
    v.push(UStr {
        chars: s,
        ucs2: false,
        bare_empty: true, marker: false,
    });
    let mut s = col.to_vec();
    s.extend(col);
    s.extend(d.iter());
    v.push(UStr {
        chars: s,
        ucs2: false,
        bare_empty: true, marker: false,
    });
    // a colour escape whose three components are all printable characters (none of them would be removed as a control code)
    let mut s: Vec<char> = d[.. d.len() / 2].to_vec();
    s.extend(['\x1b', 'A', 'b', '~']);
    s.extend(&d[d.len() / 2 ..]);
    v.push(UStr {
        chars: s,
        ucs2: false,
        bare_empty: true, marker: false,
    });
    // a colour escape whose first component is itself 1B (red = 27)
    let mut s: Vec<char> = d[.. d.len() / 2].to_vec();
    s.extend(['\x1b', '\x1b', 'A', 'b']);
    s.extend(&d[d.len() / 2 ..]);
    v.push(UStr {
        chars: s,
        ucs2: false,
        bare_empty: true, marker: false,
    });
    // control characters 01..1A inside
    let mut s = d.clone();
    s.insert(d.len() / 2, '\x01');
    s.push('\x1a');
    v.push(UStr {
        chars: s,
        ucs2: false,
        bare_empty: true, marker: false,
    });
    // UCS-2 variants
    v.push(UStr {
        chars: d.clone(),
        ucs2: true,
        bare_empty: true, marker: false,
    });
    v.push(UStr {
        chars: "Привет 東京".chars().collect(),
        ucs2: true,
        bare_empty: true, marker: false,
    });
    let mut s = d.clone();
    s.extend(col);
    s.push('x');
    v.push(UStr {
        chars: s,
        ucs2: true,
        bare_empty: true, marker: false,
    });
    v.push(UStr {
        chars: vec![],
        ucs2: true,
        bare_empty: false, marker: false,
    });
    // UCS-2 with the extra marker byte some games insert after the length byte
    v.push(UStr { chars: d.clone(), ucs2: true, bare_empty: true, marker: true });
    v.push(UStr { chars: "東京 x".chars().collect(), ucs2: true, bare_empty: true, marker: true });
    v.push(UStr { chars: vec![], ucs2: true, bare_empty: true, marker: true });
    v
}

/// Every length-byte value: a plain string of exactly `n - 1` characters
/// (Latin-1, n = 1..=127) or `n - 1` UCS-2 units.
pub fn ustr_of_len_byte(len_byte: u8) -> Option<UStr> {
    let ucs2 = len_byte >= 0x80;
    let n = (len_byte & 0x7f) as usize;
    if n == 0 {
        return Some(UStr {
            chars: vec![],
            ucs2,
            bare_empty: true, marker: false,
        });
    }
    let chars: Vec<char> = (0 .. n - 1).map(|i| (b'a' + (i % 26) as u8) as char).collect();
    Some(UStr {
        chars,
        ucs2,
        bare_empty: false, marker: false,
    })
}

pub fn pick_ustr(c: &mut Chooser, default: &str) -> UStr { pick(c, &ustr_alts(default)) }

pub fn gen_u2(c: &mut Chooser, rule_counts: &[usize], player_counts: &[usize]) -> UState {
    let server_id = pick(c, &u32_alts(5));
    let ip = pick_ustr(c, "203.0.113.5");
    let game_port = pick(c, &u32_alts(7777));
    let query_port = pick(c, &u32_alts(7778));
    let name = pick_ustr(c, "An Unreal server");
    let map = pick_ustr(c, "DM-Rankin");
    let game_type = pick_ustr(c, "xDeathMatch");
    let num_players = pick(c, &[2u32, 0, 1, 64, u32::MAX]);
    let max_players = pick(c, &u32_alts(16));
    let nr = pick(c, rule_counts);
    let mut rules: Vec<(UStr, UStr)> = Vec::new();
    for i in 0 .. nr {
        if i < 3 {
            let key = pick(c, &[
                UStr::plain(["ServerMode", "AdminName", "Mutator"][i]),
                UStr::plain("mutator"),
                UStr::plain("MUTATOR"),
                UStr::plain("GamePassword"),
                UStr::plain("AdminName"),
                // rule names padded with blanks (some servers do): still their own keys
                UStr::plain("AdminName "),
                UStr::plain(" ServerMode"),
                UStr {
                    chars: "Ключ".chars().collect(),
                    ucs2: true,
                    bare_empty: true, marker: false,
                },
            ]);
            // (the password flag of the response comes from this rule: with the key chosen, its usual values come first)
            let val = if key.expected() == "GamePassword" {
{
                // (the first rule to take this key says True by default, a later one False: both are one deviation away)
                let mut vals = vec![UStr::plain("True"), UStr::plain("False"), UStr::plain("true"), UStr::plain("TRUE"), UStr::plain(""), UStr::plain("1"), UStr::plain("Truely")];
                if i > 0 {
                    vals.swap(0, 1);
                }
                pick(c, &vals)
            }
            } else {
                pick(c, &{
                    let mut a = ustr_alts(["dedicated", "root", "MutInstaGib"][i]);
                    a.push(UStr::plain("True"));
                    a.push(UStr::plain("false"));
                    a
                })
            };
            rules.push((key, val));
        } else {
            rules.push((
                UStr::plain(&format!("Rule{}", i % 7)),
                UStr::plain(&format!("value{i}")),
            ));
        }
    }
    let np = pick(c, player_counts);
    let players = (0 .. np)
        .map(|i| {
            if i < 2 {
                UPlayer {
                    id: pick(c, &u32_alts(i as u32)),
                    name: pick_ustr(c, if i == 0 { "Alice" } else { "Bot Bob" }),
                    ping: pick(c, &[if i == 0 { 42u32 } else { 0 }, 0, 1, u32::MAX]),
                    score: pick(c, &i32_alts(17)),
                    stats_id: pick(c, &u32_alts(0)),
                }
            } else {
                UPlayer {
                    id: i as u32,
                    name: UStr::plain(&format!("p{i}")),
                    ping: if i % 3 == 0 { 0 } else { 30 + i as u32 },
                    score: i as i32 - 5,
                    stats_id: 0,
                }
            }
        })
        .collect();
    UState {
        server_id,
        ip,
        game_port,
        query_port,
        name,
        map,
        game_type,
        num_players,
        max_players,
        rules,
        players,
    }
}

pub struct U2Server {
    pub state: UState,
    pub rule_packets: usize,
    pub player_packets: usize,
}

pub fn u2_request(kind: u8) -> Vec<u8> { vec![0x79, 0, 0, 0, kind] }

impl Responder for U2Server {
    fn on_datagram(&mut self, _c: &ConnInfo, data: &[u8]) -> Vec<Vec<u8>> {
        if data.len() != 5 || data[.. 4] != [0x79, 0, 0, 0] {
            return vec![];
        }
        match data[4] {
            0 => vec![self.state.info_datagram()],
            1 => self.state.rules_datagrams(self.rule_packets),
            2 => self.state.players_datagrams(self.player_packets),
            _ => vec![],
        }
    }
}
