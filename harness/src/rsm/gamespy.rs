//! GameSpy 1 / 2 / 3 reference servers (node-gamedig gamespy{1,2,3}.js).

use super::*;
use crate::vnet::{Chooser, ConnInfo, Responder};
use gamedig::protocols::gamespy;
use std::collections::HashMap;

// ===========================================================================
// GameSpy 1

#[derive(Clone, Debug, PartialEq)]
pub struct Gs1Player {
    /// "player" or "playername"
    pub name_key: &'static str,
    pub name: String,
    pub frags: i32,
    pub ping: u16,
    pub team: Option<u8>,
    pub face: Option<String>,
    pub skin: Option<String>,
    pub mesh: Option<String>,
    pub deaths: Option<u32>,
    pub health: Option<u32>,
    pub secret: Option<bool>,
}

#[derive(Clone, Debug, PartialEq)]
pub struct Gs1State {
    pub hostname: String,
    pub mapname: String,
    pub gametype: String,
    pub gamever: String,
    /// text of the password variable ("0", "1", "true", "False", ...)
    pub password: String,
    pub maxplayers: u32,
    pub maptitle: Option<String>,
    pub admin_email: Option<String>,
    pub admin_name: Option<String>,
    pub admin: Option<String>,
    pub minplayers: Option<u8>,
    pub tournament: Option<String>,
    pub numplayers: Option<u32>,
    pub extra: Vec<(String, String)>,
    pub players: Vec<Gs1Player>,
    pub query_id: u32,
    /// how a reply that fits one datagram names itself: 0 = `queryid\\<id>.1` (as every part of a longer reply),
    /// 1 = `queryid\\<id>` without a part number, 2 = no queryid at all (older servers)
    pub single_part_style: u8,
}

impl Gs1State {
    pub fn pairs(&self) -> Vec<(String, String)> {
        let mut v: Vec<(String, String)> = vec![
            ("hostname".into(), self.hostname.clone()),
            ("mapname".into(), self.mapname.clone()),
            ("gametype".into(), self.gametype.clone()),
            ("gamever".into(), self.gamever.clone()),
            ("password".into(), self.password.clone()),
            ("maxplayers".into(), self.maxplayers.to_string()),
        ];
        if let Some(x) = &self.maptitle {
            v.push(("maptitle".into(), x.clone()));
        }
        if let Some(x) = &self.admin_email {
            v.push(("AdminEMail".into(), x.clone()));
        }
        if let Some(x) = &self.admin_name {
            v.push(("AdminName".into(), x.clone()));
        }
        if let Some(x) = &self.admin {
            v.push(("admin".into(), x.clone()));
        }
        if let Some(x) = &self.minplayers {
            v.push(("minplayers".into(), x.to_string()));
        }
        if let Some(x) = &self.tournament {
            v.push(("tournament".into(), x.clone()));
        }
        if let Some(x) = &self.numplayers {
            v.push(("numplayers".into(), x.to_string()));
        }
        v.extend(self.extra.iter().cloned());
        for (i, p) in self.players.iter().enumerate() {
            v.push((format!("{}_{i}", p.name_key), p.name.clone()));
            v.push((format!("frags_{i}"), p.frags.to_string()));
            v.push((format!("ping_{i}"), p.ping.to_string()));
            if let Some(t) = p.team {
                v.push((format!("team_{i}"), t.to_string()));
            }
            if let Some(t) = &p.face {
                v.push((format!("face_{i}"), t.clone()));
            }
            if let Some(t) = &p.skin {
                v.push((format!("skin_{i}"), t.clone()));
            }
            if let Some(t) = &p.mesh {
                v.push((format!("mesh_{i}"), t.clone()));
            }
            if let Some(t) = p.deaths {
                v.push((format!("deaths_{i}"), t.to_string()));
            }
            if let Some(t) = p.health {
                v.push((format!("health_{i}"), t.to_string()));
            }
            if let Some(t) = p.secret {
                v.push((format!("ngsecret_{i}"), if t { "true".into() } else { "false".into() }));
            }
        }
        v
    }

    /// Datagrams for `parts` parts, pairs distributed evenly (at pair
    /// boundaries); `cut_at`: explicit pair indices where a new part starts.
    pub fn datagrams(&self, cut_at: &[usize]) -> Vec<Vec<u8>> {
        let pairs = self.pairs();
        let mut parts: Vec<Vec<(String, String)>> = Vec::new();
        let mut last = 0;
        for &c in cut_at {
            let c = c.min(pairs.len());
            parts.push(pairs[last .. c].to_vec());
            last = c;
        }
        parts.push(pairs[last ..].to_vec());
        let n = parts.len();
        parts
            .iter()
            .enumerate()
            .map(|(i, ps)| {
                let mut s = String::new();
                for (k, v) in ps {
                    s.push('\\');
                    s.push_str(k);
                    s.push('\\');
                    s.push_str(v);
                }
                if i + 1 == n {
                    s.push_str("\\final\\");
                }
                match (n, self.single_part_style) {
                    (1, 1) => s.push_str(&format!("\\queryid\\{}", self.query_id)),
                    (1, 2) => {}
                    _ => s.push_str(&format!("\\queryid\\{}.{}", self.query_id, i + 1)),
                }
                s.into_bytes()
            })
            .collect()
    }

    pub fn expected(&self) -> gamespy::one::Response {
        let pw = self.password.to_lowercase();
        let has_password = match pw.parse::<bool>() {
            Ok(b) => b,
            Err(_) => pw.parse::<u8>().map(|n| n != 0).unwrap_or(false),
        };
        let mut unused: HashMap<String, String> = self.extra.iter().cloned().collect();
        if let Some(n) = self.numplayers {
            unused.insert("numplayers".into(), n.to_string());
        }
        // with both spellings present the first one is the admin name, the other stays a plain variable
        let admin_name = match (&self.admin_name, &self.admin) {
            (Some(a), Some(b)) => {
                unused.insert("admin".into(), b.clone());
                Some(a.clone())
            }
            (Some(a), None) => Some(a.clone()),
            (None, Some(b)) => Some(b.clone()),
            (None, None) => None,
        };
        gamespy::one::Response {
            name: self.hostname.clone(),
            map: self.mapname.clone(),
            map_title: self.maptitle.clone(),
            admin_contact: self.admin_email.clone(),
            admin_name,
            has_password,
            game_mode: self.gametype.clone(),
            game_version: self.gamever.clone(),
            players_maximum: self.maxplayers,
            players_online: self.players.len() as u32,
            players_minimum: self.minplayers,
            players: self
                .players
                .iter()
                .map(|p| {
                    gamespy::one::Player {
                        name: p.name.clone(),
                        team: p.team,
                        ping: p.ping,
                        face: p.face.clone(),
                        skin: p.skin.clone(),
                        mesh: p.mesh.clone(),
                        score: p.frags,
                        deaths: p.deaths,
                        health: p.health,
                        secret: p.secret,
                    }
                })
                .collect(),
            tournament: self
                .tournament
                .as_ref()
                .map(|t| t.to_lowercase() == "true")
                .unwrap_or(true),
            unused_entries: unused,
        }
    }

    pub fn expected_vars(&self) -> HashMap<String, String> { self.pairs().into_iter().collect() }
}

/// Strings valid inside a backslash-delimited GameSpy 1 value.
pub fn gs1_str(c: &mut Chooser, default: &str) -> String {
    pick(c, &[
        default.to_string(),
        String::new(),
        "a".to_string(),
        "Zürich 東京 ☃".to_string(),
        "with space_and_underscore".to_string(),
        long_string(120),
    ])
}

pub fn gen_gs1(c: &mut Chooser, player_counts: &[usize]) -> Gs1State {
    let hostname = gs1_str(c, "A GameSpy server");
    let mapname = gs1_str(c, "DM-Deck16");
    let gametype = gs1_str(c, "DeathMatch");
    let gamever = gs1_str(c, "436");
    let password = pick(c, &["0", "1", "true", "False", "TRUE", "255"]).to_string();
    let maxplayers = pick(c, &[16u32, 0, 1, 64, 255]);
    let maptitle = pick(c, &[Some("Deck 16".to_string()), None, Some(String::new())]);
    let admin_email = pick(c, &[None, Some("admin@example.org".to_string())]);
    let (admin_name, admin) = pick(c, &[
        (None, None),
        (Some("Root".to_string()), None),
        (None, Some("Toor".to_string())),
        (Some("Root".to_string()), Some("Toor".to_string())),
    ]);
    let minplayers = pick(c, &[None, Some(0u8), Some(2), Some(255)]);
    let tournament = pick(c, &[
        None,
        Some("true".to_string()),
        Some("False".to_string()),
        Some("TRUE".to_string()),
    ]);
    let numplayers = pick(c, &[None, Some(2u32), Some(0), Some(64)]);
    let n_extra = pick(c, &[1usize, 0, 3]);
    let extra: Vec<(String, String)> = (0 .. n_extra)
        .map(|i| {
            (
                pick(c, &[
                    format!("extra{i}"),
                    format!("worldlog_{i}x"),
                    format!("odd key {i}"),
                    format!("a_b_{i}"),
                    // looks like a per-player variable (word, underscore, number) but is none the format defines
                    format!("custom_{i}"),
                ]),
                gs1_str(c, "some value"),
            )
        })
        .collect();
    let n = pick(c, player_counts);
    let players = (0 .. n)
        .map(|i| {
            if i < 2 {
                Gs1Player {
                    name_key: pick(c, &["player", "playername"]),
                    name: gs1_str(c, if i == 0 { "Alice" } else { "Bob B" }),
                    frags: pick(c, &[7 + i as i32, 0, -1, i32::MAX, i32::MIN]),
                    ping: pick(c, &[40 + i as u16, 0, 65535]),
                    team: pick(c, &[Some(i as u8), None, Some(255)]),
                    face: pick(c, &[None, Some("face.png".to_string()), Some(String::new())]),
                    skin: pick(c, &[None, Some("skin one".to_string())]),
                    mesh: pick(c, &[None, Some("mesh".to_string())]),
                    deaths: pick(c, &[None, Some(3u32), Some(u32::MAX)]),
                    health: pick(c, &[None, Some(100u32), Some(0)]),
                    secret: pick(c, &[None, Some(true), Some(false)]),
                }
            } else {
                Gs1Player {
                    name_key: "player",
                    name: format!("p{i}"),
                    frags: i as i32,
                    ping: i as u16,
                    team: Some((i % 2) as u8),
                    face: None,
                    skin: None,
                    mesh: None,
                    deaths: None,
                    health: None,
                    secret: None,
                }
            }
        })
        .collect();
    Gs1State {
        hostname,
        mapname,
        gametype,
        gamever,
        password,
        maxplayers,
        maptitle,
        admin_email,
        admin_name,
        admin,
        minplayers,
        tournament,
        numplayers,
        extra,
        players,
        query_id: pick(c, &[7u32, 0, 1, u32::MAX]),
        single_part_style: pick(c, &[0u8, 1, 2]),
    }
}

pub struct Gs1Server {
    pub state: Gs1State,
    pub cut_at: Vec<usize>,
}

pub const GS1_REQUEST: &[u8] = b"\\status\\xserverquery";

impl Responder for Gs1Server {
    fn on_datagram(&mut self, _c: &ConnInfo, data: &[u8]) -> Vec<Vec<u8>> {
        if data == GS1_REQUEST {
            self.state.datagrams(&self.cut_at)
        } else {
            vec![]
        }
    }
}

// ===========================================================================
// GameSpy 2

#[derive(Clone, Debug, PartialEq)]
pub struct Gs2State {
    pub hostname: String,
    pub mapname: String,
    pub password: String,
    pub maxplayers: u32,
    pub numplayers: Option<u32>,
    pub minplayers: Option<u32>,
    pub extra: Vec<(String, String)>,
    pub players: Vec<(String, u16, u16, u16)>,
    pub teams: Vec<(String, u16)>,
}

impl Gs2State {
    pub fn pairs(&self) -> Vec<(String, String)> {
        let mut v: Vec<(String, String)> = vec![
            ("hostname".into(), self.hostname.clone()),
            ("mapname".into(), self.mapname.clone()),
            ("password".into(), self.password.clone()),
            ("maxplayers".into(), self.maxplayers.to_string()),
        ];
        if let Some(n) = self.numplayers {
            v.push(("numplayers".into(), n.to_string()));
        }
        if let Some(n) = self.minplayers {
            v.push(("minplayers".into(), n.to_string()));
        }
        v.extend(self.extra.iter().cloned());
        v
    }

    pub fn datagram(&self) -> Vec<u8> {
        let mut b = vec![0x00, 0x00, 0x00, 0x00, 0x01];
        for (k, v) in self.pairs() {
            cstr(&mut b, &k);
            cstr(&mut b, &v);
        }
        b.push(0); // empty key ends the block
        // player table: 00, row count, column names, empty name, cells
        b.push(0);
        b.push(self.players.len() as u8);
        for col in ["player_", "score_", "ping_", "team_"] {
            cstr(&mut b, col);
        }
        b.push(0);
        for (n, s, p, t) in &self.players {
            cstr(&mut b, n);
            cstr(&mut b, &s.to_string());
            cstr(&mut b, &p.to_string());
            cstr(&mut b, &t.to_string());
        }
        // team table
        b.push(0);
        b.push(self.teams.len() as u8);
        for col in ["team_t", "score_t"] {
            cstr(&mut b, col);
        }
        b.push(0);
        for (n, s) in &self.teams {
            cstr(&mut b, n);
            cstr(&mut b, &s.to_string());
        }
        b
    }

    pub fn expected(&self) -> gamespy::two::Response {
        let listed = self.players.len() as u32;
        gamespy::two::Response {
            name: self.hostname.clone(),
            map: self.mapname.clone(),
            has_password: self.password == "1",
            teams: self
                .teams
                .iter()
                .map(|(n, s)| {
                    gamespy::two::Team {
                        name: n.clone(),
                        score: *s,
                    }
                })
                .collect(),
            players_maximum: self.maxplayers,
            players_online: match self.numplayers {
                None => listed,
                Some(n) => n.max(listed),
            },
            players_minimum: self.minplayers,
            players: self
                .players
                .iter()
                .map(|(n, s, p, t)| {
                    gamespy::two::Player {
                        name: n.clone(),
                        score: *s,
                        ping: *p,
                        team_index: *t,
                    }
                })
                .collect(),
            unused_entries: self.extra.iter().cloned().collect(),
        }
    }
}

/// NUL-free, non-empty-where-required strings for GameSpy 2/3 cells.
pub fn cell_str(c: &mut Chooser, default: &str) -> String {
    pick(c, &[
        default.to_string(),
        "a".to_string(),
        "Zürich 東京 ☃".to_string(),
        "with space \\ and _".to_string(),
        // (blanks at the edges belong to the name)
        " padded name ".to_string(),
        long_string(100),
    ])
}

pub fn gen_gs2(c: &mut Chooser, player_counts: &[usize], team_counts: &[usize]) -> Gs2State {
    let hostname = pick_str(c, "Halo server");
    let mapname = pick_str(c, "bloodgulch");
    let password = pick(c, &["0", "1", "2", ""]).to_string();
    let maxplayers = pick(c, &u32_alts(16));
    let numplayers = pick(c, &[Some(2u32), None, Some(0), Some(64), Some(u32::MAX)]);
    let minplayers = pick(c, &[None, Some(0u32), Some(u32::MAX)]);
    let n_extra = pick(c, &[1usize, 0, 3]);
    let extra = (0 .. n_extra)
        .map(|i| (format!("gamevariant{i}"), pick_str(c, "Slayer")))
        .collect();
    let n = pick(c, player_counts);
    let players = (0 .. n)
        .map(|i| {
            if i < 2 {
                (
                    cell_str(c, if i == 0 { "Alice" } else { "Bob" }),
                    pick(c, &u16_alts(5 + i as u16)),
                    pick(c, &u16_alts(30)),
                    pick(c, &u16_alts(i as u16)),
                )
            } else {
                (format!("p{i}"), i as u16, 2 * i as u16, (i % 2) as u16)
            }
        })
        .collect();
    let t = pick(c, team_counts);
    let teams = (0 .. t)
        .map(|i| {
            if i < 2 {
                (
                    cell_str(c, if i == 0 { "Red" } else { "Blue" }),
                    pick(c, &u16_alts(3 + i as u16)),
                )
            } else {
                (format!("team{i}"), i as u16)
            }
        })
        .collect();
    let mut s = Gs2State {
        hostname,
        mapname,
        password,
        maxplayers,
        numplayers,
        minplayers,
        extra,
        players,
        teams,
    };
    // the whole response is one datagram: it cannot exceed the MTU
    while s.datagram().len() > 1400 && s.players.len() > 2 {
        s.players.pop();
    }
    s
}

pub const GS2_REQUEST: &[u8] = &[0xFE, 0xFD, 0x00, 0x00, 0x00, 0x00, 0x01, 0xFF, 0xFF, 0xFF];

pub struct Gs2Server {
    pub state: Gs2State,
}

impl Responder for Gs2Server {
    fn on_datagram(&mut self, _c: &ConnInfo, data: &[u8]) -> Vec<Vec<u8>> {
        // FE FD 00 <request id: 4 bytes> FF FF FF: like a real server, answer whatever the id is and echo it
        if data.len() == GS2_REQUEST.len() && data[.. 3] == GS2_REQUEST[.. 3] && data[7 ..] == GS2_REQUEST[7 ..] {
            let mut d = self.state.datagram();
            d[1 .. 5].copy_from_slice(&data[3 .. 7]);
            vec![d]
        } else {
            vec![]
        }
    }
}

// ===========================================================================
// GameSpy 3

#[derive(Clone, Debug, PartialEq)]
pub struct Gs3Player {
    pub name: String,
    pub score: i32,
    pub ping: u16,
    pub team: u8,
    pub deaths: u32,
    pub skill: u32,
    pub pid: Option<String>,
}

#[derive(Clone, Debug, PartialEq)]
pub struct Gs3State {
    pub hostname: String,
    pub mapname: String,
    pub gametype: String,
    pub gamever: String,
    pub password: String,
    pub maxplayers: u32,
    pub minplayers: Option<u8>,
    pub numplayers: Option<u32>,
    pub tournament: Option<String>,
    pub extra: Vec<(String, String)>,
    pub players: Vec<Gs3Player>,
    pub teams: Vec<(String, i32)>,
    /// text of the challenge sent in the handshake
    pub challenge: String,
}

/// One logical piece of the reply body that must not be cut.
#[derive(Clone, Debug)]
enum Atom {
    Kv(String, String),
    KvEnd,
    /// (section type 1|2, field name, item index, value)
    Item(u8, &'static str, usize, String),
}

impl Gs3State {
    pub fn pairs(&self) -> Vec<(String, String)> {
        let mut v: Vec<(String, String)> = vec![
            ("hostname".into(), self.hostname.clone()),
            ("mapname".into(), self.mapname.clone()),
            ("gametype".into(), self.gametype.clone()),
            ("gamever".into(), self.gamever.clone()),
            ("password".into(), self.password.clone()),
            ("maxplayers".into(), self.maxplayers.to_string()),
        ];
        if let Some(n) = self.minplayers {
            v.push(("minplayers".into(), n.to_string()));
        }
        if let Some(n) = self.numplayers {
            v.push(("numplayers".into(), n.to_string()));
        }
        if let Some(t) = &self.tournament {
            v.push(("tournament".into(), t.clone()));
        }
        v.extend(self.extra.iter().cloned());
        v
    }

    fn atoms(&self) -> Vec<Atom> {
        let mut a: Vec<Atom> = self.pairs().into_iter().map(|(k, v)| Atom::Kv(k, v)).collect();
        a.push(Atom::KvEnd);
        let has_pid = self.players.iter().any(|p| p.pid.is_some());
        let mut fields: Vec<(&'static str, Vec<String>)> = vec![
            ("player_", self.players.iter().map(|p| p.name.clone()).collect()),
            ("score_", self.players.iter().map(|p| p.score.to_string()).collect()),
            ("ping_", self.players.iter().map(|p| p.ping.to_string()).collect()),
            ("team_", self.players.iter().map(|p| p.team.to_string()).collect()),
            ("deaths_", self.players.iter().map(|p| p.deaths.to_string()).collect()),
            ("skill_", self.players.iter().map(|p| p.skill.to_string()).collect()),
        ];
        if has_pid {
            fields.insert(
                4,
                (
                    "pid_",
                    self.players
                        .iter()
                        .map(|p| p.pid.clone().unwrap_or_else(|| "0".into()))
                        .collect(),
                ),
            );
        }
        for (name, vals) in fields {
            for (i, v) in vals.into_iter().enumerate() {
                a.push(Atom::Item(1, name, i, v));
            }
        }
        let tfields: Vec<(&'static str, Vec<String>)> = vec![
            ("team_t", self.teams.iter().map(|t| t.0.clone()).collect()),
            ("score_t", self.teams.iter().map(|t| t.1.to_string()).collect()),
        ];
        for (name, vals) in tfields {
            for (i, v) in vals.into_iter().enumerate() {
                a.push(Atom::Item(2, name, i, v));
            }
        }
        a
    }

    pub fn n_atoms(&self) -> usize { self.atoms().len() }

    /// index of the first atom after the key/value block
    pub fn first_data_atom(&self) -> usize { self.pairs().len() + 1 }

    /// Reply packets, cut before the atoms whose indices are in `cut_at`.
    pub fn packets(&self, cut_at: &[usize]) -> Vec<Vec<u8>> {
        let atoms = self.atoms();
        // the key/value block lives in the first packet only (gamespy3.js: "the
        // following packets will only have data fields")
        let kv_end = atoms.iter().position(|a| matches!(a, Atom::KvEnd)).unwrap() + 1;
        let mut groups: Vec<&[Atom]> = Vec::new();
        let mut last = 0;
        for &c in cut_at {
            let c = c.max(kv_end).clamp(last, atoms.len());
            if c > last {
                groups.push(&atoms[last .. c]);
                last = c;
            }
        }
        // (a server does not send a packet without content)
        if last < atoms.len() || groups.is_empty() {
            groups.push(&atoms[last ..]);
        }
        let n = groups.len();
        groups
            .iter()
            .enumerate()
            .map(|(pi, g)| {
                let mut b = vec![0x00, 0x00, 0x00, 0x00, 0x01];
                cstr(&mut b, "splitnum");
                b.push((pi as u8) | if pi + 1 == n { 0x80 } else { 0 });
                // type of the section this packet starts in
                let first_type = match g.first() {
                    Some(Atom::Item(t, ..)) => *t,
                    _ => 0,
                };
                b.push(first_type);
                let mut cur_section: u8 = first_type;
                let mut cur_field: Option<&'static str> = None;
                for atom in g.iter() {
                    match atom {
                        Atom::Kv(k, v) => {
                            cstr(&mut b, k);
                            cstr(&mut b, v);
                        }
                        Atom::KvEnd => b.push(0),
                        Atom::Item(t, name, idx, val) => {
                            if cur_field != Some(*name) {
                                if cur_field.is_some() {
                                    b.push(0); // end of the previous field's value list
                                }
                                if cur_section != *t {
                                    if cur_section != 0 {
                                        b.push(0); // end of the previous section
                                    }
                                    b.push(*t);
                                    cur_section = *t;
                                }
                                cstr(&mut b, name);
                                b.push(*idx as u8);
                                cur_field = Some(*name);
                            }
                            cstr(&mut b, val);
                        }
                    }
                }
                if cur_field.is_some() {
                    b.push(0);
                    b.push(0);
                }
                b
            })
            .collect()
    }

    pub fn expected(&self) -> gamespy::three::Response {
        let pw = self.password.to_lowercase();
        let has_password = match pw.parse::<bool>() {
            Ok(b) => b,
            Err(_) => pw.parse::<u8>().map(|n| n != 0).unwrap_or(false),
        };
        let listed = self.players.len() as u32;
        gamespy::three::Response {
            name: self.hostname.clone(),
            map: self.mapname.clone(),
            has_password,
            game_mode: self.gametype.clone(),
            game_version: self.gamever.clone(),
            players_maximum: self.maxplayers,
            players_online: match self.numplayers {
                None => listed,
                Some(n) => n.max(listed),
            },
            players_minimum: self.minplayers,
            players: self
                .players
                .iter()
                .map(|p| {
                    gamespy::three::Player {
                        name: p.name.clone(),
                        score: p.score,
                        ping: p.ping,
                        team: p.team,
                        deaths: p.deaths,
                        skill: p.skill,
                    }
                })
                .collect(),
            teams: self
                .teams
                .iter()
                .map(|(n, s)| {
                    gamespy::three::Team {
                        name: n.clone(),
                        score: *s,
                    }
                })
                .collect(),
            tournament: self
                .tournament
                .as_ref()
                .map(|t| t.to_lowercase() == "true")
                .unwrap_or(true),
            unused_entries: self.extra.iter().cloned().collect(),
        }
    }

    pub fn expected_vars(&self) -> HashMap<String, String> { self.pairs().into_iter().collect() }
}

pub fn gen_gs3(c: &mut Chooser, player_counts: &[usize], team_counts: &[usize]) -> Gs3State {
    let hostname = pick_str(c, "Crysis Wars server");
    let mapname = pick_str(c, "multiplayer/ps/mesa");
    let gametype = pick_str(c, "PowerStruggle");
    let gamever = pick_str(c, "1.1.1.6729");
    let password = pick(c, &["0", "1", "true", "False", "255"]).to_string();
    let maxplayers = pick(c, &u32_alts(32));
    let minplayers = pick(c, &[None, Some(0u8), Some(255)]);
    let numplayers = pick(c, &[Some(2u32), None, Some(0), Some(64), Some(u32::MAX)]);
    let tournament = pick(c, &[None, Some("true".to_string()), Some("False".to_string())]);
    let n_extra = pick(c, &[1usize, 0, 3]);
    let extra = (0 .. n_extra)
        .map(|i| {
            (
                pick(c, &[format!("timelimit{i}"), format!("player_flags{i}"), format!("x y {i}")]),
                pick_str(c, "60"),
            )
        })
        .collect();
    let n = pick(c, player_counts);
    let with_pid = pick(c, &[false, true]);
    let players = (0 .. n)
        .map(|i| {
            if i < 2 {
                Gs3Player {
                    name: cell_str(c, if i == 0 { "Alice" } else { "Bob" }),
                    score: pick(c, &i32_alts(12 + i as i32)),
                    ping: pick(c, &u16_alts(25)),
                    team: pick(c, &u8_alts(1 + i as u8)),
                    deaths: pick(c, &u32_alts(4)),
                    skill: pick(c, &u32_alts(900)),
                    pid: if with_pid { Some(format!("{}", 1000 + i)) } else { None },
                }
            } else {
                Gs3Player {
                    name: format!("p{i}"),
                    score: i as i32,
                    ping: i as u16,
                    team: (i % 2) as u8,
                    deaths: i as u32,
                    skill: 10 * i as u32,
                    pid: if with_pid { Some(format!("{}", 1000 + i)) } else { None },
                }
            }
        })
        .collect();
    let t = pick(c, team_counts);
    let teams = (0 .. t)
        .map(|i| {
            if i < 2 {
                (
                    cell_str(c, if i == 0 { "nk" } else { "us" }),
                    pick(c, &i32_alts(2 + i as i32)),
                )
            } else {
                (format!("team{i}"), i as i32)
            }
        })
        .collect();
    Gs3State {
        hostname,
        mapname,
        gametype,
        gamever,
        password,
        maxplayers,
        minplayers,
        numplayers,
        tournament,
        extra,
        players,
        teams,
        // the challenge is part of the server's state too: any i32 in decimal (the longest texts are the negative ten-digit ones)
        challenge: pick(c, &["11223344", "0", "-1", "2147483647", "-2147483648", "-1234567890"]).to_string(),
    }
}

pub const GS3_HANDSHAKE: &[u8] = &[0xFE, 0xFD, 0x09, 0x00, 0x00, 0x00, 0x01];

/// The data request the protocol defines for a given challenge text.
pub fn gs3_data_request(challenge_text: &str, payload: [u8; 4]) -> Vec<u8> {
    let mut b = vec![0xFE, 0xFD, 0x00, 0x00, 0x00, 0x00, 0x01];
    let n: i64 = challenge_text.parse().unwrap_or(0);
    if n != 0 {
        b.extend_from_slice(&(n as i32).to_be_bytes());
    }
    b.extend_from_slice(&payload);
    b
}

pub struct Gs3Server {
    pub state: Gs3State,
    pub cut_at: Vec<usize>,
    pub payload: [u8; 4],
    /// custom body generator for single-packet users (JC2-MP)
    pub body_override: Option<Vec<Vec<u8>>>,
    pub handshaken: bool,
    pub bad_challenge: usize,
}

impl Gs3Server {
    pub fn new(state: Gs3State, cut_at: Vec<usize>) -> Self {
        Self {
            state,
            cut_at,
            payload: [0xFF, 0xFF, 0xFF, 0x01],
            body_override: None,
            handshaken: false,
            bad_challenge: 0,
        }
    }
}

impl Responder for Gs3Server {
    fn on_datagram(&mut self, _c: &ConnInfo, data: &[u8]) -> Vec<Vec<u8>> {
        if data == GS3_HANDSHAKE {
            self.handshaken = true;
            let mut b = vec![0x09, 0x00, 0x00, 0x00, 0x01];
            cstr(&mut b, &self.state.challenge);
            return vec![b];
        }
        if !self.handshaken {
            return vec![];
        }
        if data == gs3_data_request(&self.state.challenge, self.payload).as_slice() {
            match &self.body_override {
                Some(b) => b.clone(),
                None => self.state.packets(&self.cut_at),
            }
        } else {
            self.bad_challenge += 1;
            vec![]
        }
    }
}
