// placeholder
