//! C19 — the CLI prints a well-formed, faithful document or a clean error
//! (Engine R: the real `gamedig_cli` binary against loopback servers).

use super::c02::EngineCfg;
use super::common::*;
use crate::prop::Prop;
use crate::report::{Ctx, Tier};
use crate::rsm::gamespy::*;
use crate::rsm::minecraft::*;
use crate::rsm::misc::*;
use crate::rsm::quake::*;
use crate::rsm::unreal2::*;
use crate::rsm::valve as rv;
use crate::targets::*;
use crate::vnet::{Chooser, Responder};
use gamedig::protocols::types::TimeoutSettings;
use serde_json::Value;
use std::net::{IpAddr, Ipv4Addr};
use std::process::Command;
use std::sync::{Arc, OnceLock};
use std::time::Duration;

pub const CLI: &str = "/verif/target/cli/debug/gamedig_cli";

const CLASSES: [(&str, &str); 9] = [
    ("plain", "Plain"),
    ("markup", "<b>&amp;\"'</b> ]]> <!--"),
    ("control", "ctl\u{1}\u{7}\u{1f}\u{7f}x"),
    // the edges of the ranges XML 1.1 only allows as references (01-08, 0B, 0C, 0E-1F, 7F-84, 86-9F) and their neighbours
    ("control-edges", "e\u{8}\t\u{b}\u{c}\u{e}\u{84}\u{85}\u{86}\u{9f}\u{a0}x"),
    // line ends: a parser normalises literal CR, CR LF, NEL and LINE SEPARATOR to LF, so they must be written as references
    ("line-ends", "l\r1\r\n2\n3\u{85}4\u{2028}5\r"),
    // LINE SEPARATOR on its own: not a control character, not markup, yet not preserved by a parser if written literally
    ("line-separator-only", "Line\u{2028}Separator"),
    ("non-ascii", "Zürich 東京 𝄞"),
    ("space", " two  words "),
    ("empty", ""),
];

/// Extra classes for rule keys only (they become XML element names): already valid names must be kept as they are, a
/// leading digit must not produce an invalid name.
const KEY_CLASSES: [(&str, &str); 3] = [("name-chars", "a-b.c_d9"), ("digit-first", "9lives"), ("underscore-first", "_x")];

const FORMATS: [&str; 6] = ["debug", "json-pretty", "json", "xml", "bson-hex", "bson-base64"];
const MODES: [&str; 2] = ["generic", "protocol-specific"];

/// (game id, tcp?, slots)
struct GameSpec {
    id: &'static str,
    tcp: bool,
    slots: &'static [&'static str],
}

const GAMES_UNDER_TEST: [GameSpec; 17] = [
    GameSpec { id: "teamfortress2", tcp: false, slots: &["name", "map", "version", "keywords", "player", "rule-key", "rule-value"] },
    GameSpec { id: "counterstrike", tcp: false, slots: &["name", "player", "rule-key"] },
    GameSpec { id: "theship", tcp: false, slots: &["name", "player", "rule-key"] },
    GameSpec { id: "unrealtournament", tcp: false, slots: &["name", "map", "player", "rule-key", "rule-value"] },
    GameSpec { id: "hce", tcp: false, slots: &["name", "player", "rule-key"] },
    GameSpec { id: "crysiswars", tcp: false, slots: &["name", "player", "rule-key"] },
    GameSpec { id: "quake1", tcp: false, slots: &["name", "player", "rule-key"] },
    GameSpec { id: "quake2", tcp: false, slots: &["name", "player", "rule-key"] },
    GameSpec { id: "q3a", tcp: false, slots: &["name", "player", "rule-key", "rule-value"] },
    GameSpec { id: "killingfloor", tcp: false, slots: &["name", "rule-key"] },
    GameSpec { id: "minecraftjava", tcp: true, slots: &["version", "description", "player"] },
    GameSpec { id: "minecraftbedrock", tcp: false, slots: &["name", "map"] },
    GameSpec { id: "minecraftlegacy16", tcp: true, slots: &["version", "description"] },
    GameSpec { id: "ffow", tcp: false, slots: &["name", "map"] },
    GameSpec { id: "savage2", tcp: false, slots: &["name", "map"] },
    GameSpec { id: "jc2m", tcp: false, slots: &["name", "player"] },
    GameSpec { id: "mindustry", tcp: false, slots: &["name", "map"] },
];

/// Characters a slot of this format cannot carry (delimiters), removed from the class text.
fn sanitize(id: &str, slot: &str, text: &str) -> String {
    let mut t: String = text.to_string();
    match id {
        "unrealtournament" | "quake1" | "quake2" | "q3a" => {
            t = t.replace(['\\', '\n'], "");
            if id != "unrealtournament" && slot == "player" {
                t = t.replace(['"', ' '], "");
                if t.is_empty() {
                    t = "x".into();
                }
            }
        }
        "killingfloor" => {
            // Latin-1 only, control codes are stripped by design
            t = t.chars().filter(|c| (*c as u32) >= 0x20 && ((*c as u32) < 0x7f || ((*c as u32) >= 0xa0 && (*c as u32) < 0x100))).collect();
        }
        "minecraftbedrock" => t = t.replace(';', ""),
        "minecraftlegacy16" => t = t.replace('\0', ""),
        "hce" | "crysiswars" | "jc2m" => {
            if t.is_empty() && slot != "name" {
                t = "x".into();
            }
        }
        _ => {}
    }
    // an empty key is expressible where keys are NUL-terminated strings of a counted list (Valve rules, Unreal 2)
    if slot == "rule-key" && t.is_empty() && !matches!(id, "teamfortress2" | "counterstrike" | "theship" | "killingfloor") {
        t = "k".into();
    }
    t
}

/// The server for a game with `text` in `slot` (None = all plain).
fn server_for_cli(id: &'static str, slot: Vec<(&'static str, String)>) -> ServerFn {
    let game = gamedig::GAMES.get(id).unwrap();
    let fam = family_of_game(game).unwrap();
    let put = move |which: &str| -> Option<String> {
        slot.iter().find(|(s, _)| *s == which).map(|(_, t)| t.clone())
    };
    match fam {
        Family::Valve(e) => {
            Arc::new(move || {
                let mut s = valve_seed(e);
                if let (gamedig::protocols::types::Protocol::Valve(gamedig::protocols::valve::Engine::Source(Some((appid, _)))), true) = (&game.protocol, true) {
                    s.info.appid = *appid as u16;
                    s.info.edf.as_mut().unwrap().game_id = Some(*appid as u64);
                }
                if e == EngineCfg::Ship2400 {
                    s.info.appid = 2400;
                    s.info.edf.as_mut().unwrap().game_id = Some(2400);
                }
                // a steam id above i64::MAX, as real servers have
                if let Some(x) = put("name") { s.info.name = x }
                if let Some(x) = put("map") { s.info.map = x }
                if let Some(x) = put("version") { s.info.version = x }
                if let Some(x) = put("keywords") { s.info.edf.as_mut().unwrap().keywords = Some(x) }
                if let Some(x) = put("player") { s.players[0].name = x }
                if let Some(x) = put("rule-key") { s.rules[0].0 = x }
                if let Some(x) = put("rule-value") { s.rules[0].1 = x }
                if put("u64max").is_some() {
                    let e = s.info.edf.as_mut().unwrap();
                    e.steam_id = Some(u64::MAX);
                }
                // a full server: 100 players and 150 rules (documents of tens of kilobytes), replies split into 4 and 6
                let mut big_transport = None;
                if put("big").is_some() {
                    s.players = rv::gen_players(&mut Chooser::new(&[]), e.layout(), &[100]);
                    // (two neighbours equal in every respect - clients still connecting: both must be printed)
                    s.players[1] = s.players[0].clone();
                    s.players[41] = s.players[40].clone();
                    s.rules = rv::gen_rules(&mut Chooser::new(&[]), &[150]);
                    s.info.players = 100;
                    let mut t = valve_seed_transport(e, &s);
                    let pl = rv::players_body(&s.players).len();
                    let rl = rv::rules_body(&s.rules).len();
                    t.players = rv::Framing::Source { cuts: crate::rsm::even_cuts(pl, 4), compressed: false, size_field: true, exact_size: true, id: 0x21 };
                    t.rules = rv::Framing::Source { cuts: crate::rsm::even_cuts(rl, 6), compressed: false, size_field: true, exact_size: true, id: 0x22 };
                    big_transport = Some(t);
                }
                let t = big_transport.unwrap_or_else(|| valve_seed_transport(e, &s));
                Box::new(rv::ValveServer::new(s, t)) as Box<dyn Responder>
            })
        }
        Family::Gs1 => {
            Arc::new(move || {
                let mut s = gs1_seed();
                if let Some(x) = put("name") { s.hostname = x }
                if let Some(x) = put("map") { s.mapname = x }
                if let Some(x) = put("player") { s.players[0].name = x }
                if let Some(x) = put("rule-key") { s.extra[0].0 = x }
                if let Some(x) = put("rule-value") { s.extra[0].1 = x }
                // a server variable shaped like a per-player field the client does not know: an ordinary unused entry
                s.extra.push(("kills_0".to_string(), "7".to_string()));
                let n = s.pairs().len();
                Box::new(Gs1Server { state: s, cut_at: vec![n / 2] }) as Box<dyn Responder>
            })
        }
        Family::Gs2 => {
            Arc::new(move || {
                let mut s = gs2_seed();
                if let Some(x) = put("name") { s.hostname = x }
                if let Some(x) = put("player") { s.players[0].0 = x }
                if let Some(x) = put("rule-key") { s.extra[0].0 = x }
                Box::new(Gs2Server { state: s }) as Box<dyn Responder>
            })
        }
        Family::Gs3 => {
            Arc::new(move || {
                let mut s = gs3_seed();
                if let Some(x) = put("name") { s.hostname = x }
                if let Some(x) = put("player") { s.players[0].name = x }
                if let Some(x) = put("rule-key") { s.extra[0].0 = x }
                Box::new(Gs3Server::new(s, vec![])) as Box<dyn Responder>
            })
        }
        Family::Quake(v) => {
            Arc::new(move || {
                let mut s = quake_seed(v);
                if let Some(x) = put("name") {
                    for kv in s.vars.iter_mut() {
                        if kv.0 == "hostname" {
                            kv.1 = x.clone();
                        }
                    }
                }
                if let Some(x) = put("player") { s.players[0].name = x }
                if let Some(x) = put("rule-key") { s.vars.push((x, "1".into())) }
                if let Some(x) = put("rule-value") { s.vars.push(("g_extra".into(), x)) }
                Box::new(QuakeServer { state: s }) as Box<dyn Responder>
            })
        }
        Family::Unreal2 => {
            Arc::new(move || {
                let mut s = u2_seed();
                if let Some(x) = put("name") { s.name = UStr::plain(&x) }
                if let Some(x) = put("player") { s.players[0].name = UStr::plain(&x) }
                if let Some(x) = put("rule-key") { s.rules[0].0 = UStr::plain(&x) }
                if let Some(x) = put("rule-value") { s.rules[0].1 = UStr::plain(&x) }
                Box::new(U2Server { state: s, rule_packets: 1, player_packets: 1 }) as Box<dyn Responder>
            })
        }
        Family::Java => {
            Arc::new(move || {
                let mut j = java_seed();
                if let Some(x) = put("version") { j.version_name = x }
                if let Some(x) = put("description") { j.description = Description::Text(x) }
                if let Some(x) = put("player") { j.sample.as_mut().unwrap()[0].0 = x }
                // a server icon, as most servers have: a data URL of about 9 kB
                if put("big").is_some() {
                    j.favicon = Some(format!("data:image/png;base64,{}", "iVBORw0KGgoAAAANSUhEUgAAAEAAAABA".repeat(280)));
                }
                let mut m = McServer::none();
                m.java = Some(j);
                Box::new(m) as Box<dyn Responder>
            })
        }
        Family::Bedrock => {
            Arc::new(move || {
                let mut b = bedrock_seed();
                if let Some(x) = put("name") { b.fields[1] = x }
                if let Some(x) = put("map") { b.fields[7] = x }
                let mut m = McServer::none();
                m.bedrock = Some(b);
                Box::new(m) as Box<dyn Responder>
            })
        }
        Family::Legacy(k) => {
            Arc::new(move || {
                let mut l = legacy_seed(k);
                if let Some(x) = put("version") { l.version = x }
                if let Some(x) = put("description") { l.motd = x }
                let mut m = McServer::none();
                m.v1_6 = Some(l);
                Box::new(m) as Box<dyn Responder>
            })
        }
        Family::Ffow => {
            Arc::new(move || {
                let mut s = gen_ffow(&mut Chooser::new(&[]));
                if let Some(x) = put("name") { s.name = x }
                if let Some(x) = put("map") { s.map = x }
                Box::new(FfowServer::new(s, 1, 0)) as Box<dyn Responder>
            })
        }
        Family::Savage2 => {
            Arc::new(move || {
                let mut s = gen_savage2(&mut Chooser::new(&[]));
                if let Some(x) = put("name") { s.name = x }
                if let Some(x) = put("map") { s.map = x }
                Box::new(Savage2Server { state: s }) as Box<dyn Responder>
            })
        }
        Family::Jc2m => {
            Arc::new(move || {
                let mut s = jc2m_seed();
                if let Some(x) = put("name") { s.hostname = x }
                if let Some(x) = put("player") { s.players[0].0 = x }
                let mut dummy = gs3_seed();
                dummy.challenge = "9182736".into();
                let mut srv = Gs3Server::new(dummy, vec![]);
                srv.payload = [0xFF, 0xFF, 0xFF, 0x02];
                srv.body_override = Some(vec![s.packet()]);
                Box::new(srv) as Box<dyn Responder>
            })
        }
        Family::Mindustry => {
            Arc::new(move || {
                let mut s = gen_mindustry(&mut Chooser::new(&[]));
                if let Some(x) = put("name") { s.host = x }
                if let Some(x) = put("map") { s.map = x }
                Box::new(MindustryServer { state: s }) as Box<dyn Responder>
            })
        }
        _ => server_for(fam),
    }
}

// ---------------------------------------------------------------------------
// a small strict XML 1.1 well-formedness checker (for the subset the CLI emits)

pub fn xml_leaves(doc: &str) -> Result<Vec<(String, String)>, String> {
    let b: Vec<char> = doc.trim_end_matches('\n').chars().collect();
    let mut i = 0usize;
    let starts = |i: usize, s: &str| -> bool { s.chars().enumerate().all(|(k, c)| b.get(i + k) == Some(&c)) };
    // without a declaration saying version 1.1 the document is XML 1.0, where references to C0 controls are not well-formed
    let mut version11 = false;
    if starts(0, "<?xml") {
        let end = (0 .. b.len()).find(|k| starts(*k, "?>")).ok_or("unterminated XML declaration")?;
        let decl: String = b[.. end].iter().collect();
        version11 = decl.contains("version=\"1.1\"") || decl.contains("version='1.1'");
        if !version11 && !(decl.contains("version=\"1.0\"") || decl.contains("version='1.0'")) {
            return Err(format!("XML declaration without a version: {decl:?}"));
        }
        i = end + 2;
    }
    let name_start = |c: char| c.is_ascii_alphabetic() || c == '_' || c == ':' || (c as u32) >= 0xC0;
    let name_char = |c: char| name_start(c) || c.is_ascii_digit() || c == '-' || c == '.' || c == '\u{b7}';
    let mut stack: Vec<String> = Vec::new();
    let mut leaves: Vec<(String, String)> = Vec::new();
    let mut text = String::new();
    let mut had_child = vec![false];
    let mut roots = 0;
    while i < b.len() {
        let c = b[i];
        if c == '<' {
            if starts(i, "</") {
                i += 2;
                let s = i;
                while i < b.len() && b[i] != '>' {
                    i += 1;
                }
                let name: String = b[s .. i].iter().collect();
                let open = stack.pop().ok_or(format!("closing tag </{name}> without an open element"))?;
                if open != name {
                    return Err(format!("closing tag </{name}> does not match <{open}>"));
                }
                let child = had_child.pop().unwrap_or(false);
                if !child {
                    let mut path = stack.join("/");
                    if !path.is_empty() {
                        path.push('/');
                    }
                    path.push_str(&name);
                    leaves.push((path, std::mem::take(&mut text)));
                } else if !text.trim().is_empty() {
                    return Err(format!("mixed content in <{name}>"));
                }
                text.clear();
                i += 1;
            } else if starts(i, "<!--") || starts(i, "<![CDATA[") || starts(i, "<?") || starts(i, "<!") {
                return Err(format!("unexpected markup at offset {i}: {:?}", b[i .. (i + 12).min(b.len())].iter().collect::<String>()));
            } else {
                i += 1;
                let s = i;
                if i >= b.len() || !name_start(b[i]) {
                    return Err(format!("element name does not start with a name start character: {:?}", b[s .. (s + 24).min(b.len())].iter().collect::<String>()));
                }
                while i < b.len() && name_char(b[i]) {
                    i += 1;
                }
                let name: String = b[s .. i].iter().collect();
                let empty = if starts(i, "/>") {
                    i += 2;
                    true
                } else if b.get(i) == Some(&'>') {
                    i += 1;
                    false
                } else {
                    return Err(format!("malformed start tag <{name}{:?}", b[i .. (i + 16).min(b.len())].iter().collect::<String>()));
                };
                if stack.is_empty() {
                    roots += 1;
                    if roots > 1 {
                        return Err("more than one root element".into());
                    }
                }
                if let Some(h) = had_child.last_mut() {
                    *h = true;
                }
                if !text.trim().is_empty() {
                    return Err(format!("mixed content before <{name}>"));
                }
                text.clear();
                if empty {
                    let mut path = stack.join("/");
                    if !path.is_empty() {
                        path.push('/');
                    }
                    path.push_str(&name);
                    leaves.push((path, String::new()));
                } else {
                    stack.push(name);
                    had_child.push(false);
                }
            }
        } else if c == '&' {
            let s = i;
            while i < b.len() && b[i] != ';' {
                i += 1;
                if i - s > 12 {
                    return Err("unterminated entity reference".into());
                }
            }
            if i >= b.len() {
                return Err("unterminated entity reference".into());
            }
            let ent: String = b[s + 1 .. i].iter().collect();
            let ch = match ent.as_str() {
                "lt" => '<',
                "gt" => '>',
                "amp" => '&',
                "quot" => '"',
                "apos" => '\'',
                e if e.starts_with("#x") => char::from_u32(u32::from_str_radix(&e[2 ..], 16).map_err(|_| "bad char ref")?).ok_or("bad char ref")?,
                e if e.starts_with('#') => char::from_u32(e[1 ..].parse().map_err(|_| "bad char ref")?).ok_or("bad char ref")?,
                e => return Err(format!("unknown entity &{e};")),
            };
            let cu = ch as u32;
            if cu == 0 {
                return Err("reference to U+0000".into());
            }
            if !version11 && cu < 0x20 && !matches!(cu, 0x9 | 0xA | 0xD) {
                return Err(format!("reference to U+{cu:04X} in a document that is not declared XML 1.1"));
            }
            text.push(ch);
            i += 1;
        } else {
            let u = c as u32;
            // XML 1.1: restricted characters must not appear literally
            // the sequence that ends a CDATA section must not appear in character data (XML 2.4)
            if c == '>' && i >= 2 && b[i - 1] == ']' && b[i - 2] == ']' {
                return Err("']]>' appears literally in character data".into());
            }
            let c0 = u == 0 || (0x1 ..= 0x8).contains(&u) || (0xB ..= 0xC).contains(&u) || (0xE ..= 0x1F).contains(&u);
            if c0 || (version11 && ((0x7F ..= 0x84).contains(&u) || (0x86 ..= 0x9F).contains(&u))) {
                return Err(format!("restricted character U+{u:04X} appears literally"));
            }
            if stack.is_empty() && !c.is_whitespace() {
                return Err(format!("text outside the root element: {c:?}"));
            }
            // end-of-line handling (XML 1.0 2.11 / XML 1.1 2.11): a processor hands the application #xA for a literal #xD #xA,
            // #xD and, in 1.1, for #xD #x85, #x85 and #x2028 - so these characters only survive as character references
            let next = b.get(i + 1).copied();
            if c == '\r' {
                if next == Some('\n') || (version11 && next == Some('\u{85}')) {
                    i += 1;
                }
                text.push('\n');
            } else if version11 && (c == '\u{85}' || c == '\u{2028}') {
                text.push('\n');
            } else {
                text.push(c);
            }
            i += 1;
        }
    }
    if !stack.is_empty() {
        return Err(format!("unclosed element <{}>", stack.last().unwrap()));
    }
    if roots != 1 {
        return Err("no root element".into());
    }
    Ok(leaves)
}

/// (element path, text) of every leaf the XML form of `v` must have: object members become child elements named after the
/// key, array elements repeat the element of their key (`item` at the top level), null is an empty element. A key that is
/// not already an XML name made of ASCII letters, digits, `_`, `-`, `.` (server-supplied rule names can be anything) has to
/// be turned into *some* valid name: written `*` here, matching any one name.
fn json_leaves(v: &Value, path: &str, out: &mut Vec<(String, String)>) {
    match v {
        Value::Object(m) => {
            for (k, x) in m {
                let simple = k.chars().next().is_some_and(|c| c.is_ascii_alphabetic() || c == '_') && k.chars().all(|c| c.is_ascii_alphanumeric() || matches!(c, '_' | '-' | '.'));
                json_leaves(x, &format!("{path}/{}", if simple { k.as_str() } else { "*" }), out);
            }
        }
        Value::Array(a) => {
            let p = if path == "data" { "data/item".to_string() } else { path.to_string() };
            for x in a {
                json_leaves(x, &p, out);
            }
        }
        Value::Null => out.push((path.to_string(), String::new())),
        Value::String(s) => out.push((path.to_string(), s.clone())),
        other => out.push((path.to_string(), other.to_string())),
    }
}

fn path_matches(pattern: &str, path: &str) -> bool {
    let (a, b): (Vec<&str>, Vec<&str>) = (pattern.split('/').collect(), path.split('/').collect());
    a.len() == b.len() && a.iter().zip(&b).all(|(p, q)| *p == "*" || p == q)
}

/// Numbers compared by value (BSON has no unsigned 64-bit type, floats keep their value).
fn loose_eq(a: &Value, b: &Value) -> bool {
    match (a, b) {
        (Value::Number(x), Value::Number(y)) => x.as_f64() == y.as_f64() || x.to_string() == y.to_string(),
        (Value::Object(x), Value::Object(y)) => x.len() == y.len() && x.iter().all(|(k, v)| y.get(k).map_or(false, |w| loose_eq(v, w))),
        (Value::Array(x), Value::Array(y)) => x.len() == y.len() && x.iter().zip(y).all(|(v, w)| loose_eq(v, w)),
        _ => a == b,
    }
}

#[derive(Clone)]
enum What {
    /// `part` of `parts`: the assignments of one game are dealt round-robin over several cases (so that slow games spread over workers)
    Game { gi: usize, part: usize, parts: usize },
    Invalid,
    /// every id of the definitions table, `CHUNK` ids per case
    AllIds { chunk: usize },
}

const CHUNK: usize = 7;

fn all_ids() -> Vec<&'static str> {
    let mut v: Vec<&'static str> = gamedig::GAMES.keys().copied().collect();
    v.sort();
    v
}

fn cases(tier: Tier) -> Vec<(String, What)> {
    let mut v: Vec<(String, What)> = Vec::new();
    for (gi, g) in GAMES_UNDER_TEST.iter().enumerate() {
        // every Unreal 2 query waits for one-second read timeouts; two-slot assignments multiply the larger games in thorough
        let parts = if g.id == "killingfloor" { 6 } else if tier.is_thorough() && g.slots.len() >= 3 { 4 } else { 1 };
        for part in 0 .. parts {
            v.push((format!("cli game '{}': string classes x modes x formats ({}/{parts})", g.id, part + 1), What::Game { gi, part, parts }));
        }
    }
    v.push(("invalid invocations".into(), What::Invalid));
    let ids = all_ids();
    for chunk in 0 .. ids.len().div_ceil(CHUNK) {
        let part = &ids[chunk * CHUNK .. ((chunk + 1) * CHUNK).min(ids.len())];
        v.push((format!("every game id of the definitions table: {} .. {}", part[0], part[part.len() - 1]), What::AllIds { chunk }));
    }
    v
}

/// Judge one CLI run against what the library returned in-process for the same server.
fn judge(format: &str, want: &Option<Value>, lib_err: Option<String>, r: &Run) -> Option<(String, String)> {
    match (want, r.code) {
        (None, Some(c)) if c != 0 && c != 101 && !r.stderr.contains("panicked at") => None, // library fails too: clean error
        (None, c) => Some(("error-not-clean".into(), format!("library query fails ({lib_err:?}) but CLI exit {c:?}, stderr {:?}", clip(&r.stderr, 200)))),
        // (BSON has no unsigned 64-bit integer: a class of its own, see known_findings.jsonl)
        (Some(_), c) if c != Some(0) && format.starts_with("bson") && r.stderr.contains("UnsignedIntegerExceededRange") => Some((format!("exit-status:bson-cannot-hold-u64-above-i64-max:{format}"), format!("exit {c:?}, stderr {:?}", clip(&r.stderr, 300)))),
        (Some(_), c) if c != Some(0) => Some((format!("exit-status:{}", if r.stderr.contains("panicked at") { "panic" } else { "error" }), format!("exit {c:?}, stderr {:?}", clip(&r.stderr, 300)))),
        (Some(w), _) => {
            let out = String::from_utf8_lossy(&r.stdout).to_string();
            match format {
                "debug" => if out.trim().is_empty() { Some(("empty-output:debug".into(), "exit 0 with empty stdout".into())) } else { None },
                "json" | "json-pretty" => {
                    match serde_json::from_str::<Value>(&out) {
                        Err(e) => Some((format!("not-well-formed:{format}"), format!("{e}: {:?}", clip(&out, 200)))),
                        Ok(v) => if canon(v.clone()) == *w { None } else { Some((format!("not-faithful:{format}"), format!("differs from the library's value at {}", first_diff(w, &canon(v)).unwrap_or_default()))) },
                    }
                }
                "xml" => {
                    match xml_leaves(&out) {
                        Err(e) => Some(("not-well-formed:xml".into(), format!("{e}: {:?}", clip(&out, 300)))),
                        Ok(mut leaves) => {
                            let mut wl = Vec::new();
                            json_leaves(w, "data", &mut wl);
                            let (n_xml, n_want) = (leaves.len(), wl.len());
                            // every expected (path, value) must be matched by a distinct XML leaf: exact paths first, wildcards last
                            wl.sort_by_key(|(p, _)| p.contains('*'));
                            let mut missing: Vec<(String, String)> = Vec::new();
                            for (p, val) in wl {
                                match leaves.iter().position(|(q, x)| *x == val && path_matches(&p, q)) {
                                    Some(k) => {
                                        leaves.swap_remove(k);
                                    }
                                    None => missing.push((p, val)),
                                }
                            }
                            if missing.is_empty() && leaves.is_empty() { None } else {
                                Some(("not-faithful:xml".into(), format!("elements differ from the library's value: missing {:?}, unexpected {:?} ({n_xml} vs {n_want} leaves)", &missing[.. missing.len().min(3)], &leaves[.. leaves.len().min(3)])))
                            }
                        }
                    }
                }
                _ => {
                    let t = out.trim();
                    if t.is_empty() {
                        Some((format!("empty-output:{format}"), format!("exit 0 with empty stdout; stderr {:?}", clip(&r.stderr, 200))))
                    } else {
                        let bytes = if format == "bson-hex" { hex::decode(t).map_err(|e| e.to_string()) } else {
                            use base64::Engine;
                            base64::prelude::BASE64_STANDARD.decode(t).map_err(|e| e.to_string())
                        };
                        match bytes.and_then(|b| bson::Document::from_reader(&mut &b[..]).map_err(|e| e.to_string())) {
                            Err(e) => Some((format!("not-well-formed:{format}"), e)),
                            Ok(doc) => {
                                let v = canon(bson::Bson::Document(doc).into_relaxed_extjson());
                                if loose_eq(&v, w) { None } else { Some((format!("not-faithful:{format}"), format!("differs from the library's value at {}", first_diff(w, &v).unwrap_or_default()))) }
                            }
                        }
                    }
                }
            }
        }
    }
}

struct Run {
    code: Option<i32>,
    stdout: Vec<u8>,
    stderr: String,
}

fn run_cli(args: &[String]) -> Run {
    // (a run that does not end is killed after 60 s - no query here waits longer than a few seconds - and reported as such)
    use std::io::Read;
    use std::process::Stdio;
    let child = Command::new(CLI).args(args).env_remove("RUST_BACKTRACE").stdin(Stdio::null()).stdout(Stdio::piped()).stderr(Stdio::piped()).spawn();
    let mut child = match child {
        Ok(c) => c,
        Err(e) => return Run { code: None, stdout: vec![], stderr: format!("spawn failed: {e}") },
    };
    let (mut so, mut se) = (child.stdout.take().unwrap(), child.stderr.take().unwrap());
    let t_out = std::thread::spawn(move || {
        let mut b = Vec::new();
        let _ = so.read_to_end(&mut b);
        b
    });
    let t_err = std::thread::spawn(move || {
        let mut b = Vec::new();
        let _ = se.read_to_end(&mut b);
        b
    });
    let t0 = std::time::Instant::now();
    let status = loop {
        match child.try_wait() {
            Ok(Some(st)) => break Some(st),
            Ok(None) if t0.elapsed() > Duration::from_secs(60) => {
                let _ = child.kill();
                let _ = child.wait();
                break None;
            }
            Ok(None) => std::thread::sleep(Duration::from_millis(5)),
            Err(_) => break None,
        }
    };
    let stdout = t_out.join().unwrap_or_default();
    let stderr = String::from_utf8_lossy(&t_err.join().unwrap_or_default()).to_string();
    match status {
        Some(st) => Run { code: st.code(), stdout, stderr },
        None => Run { code: None, stdout, stderr: format!("no exit within 60 s (killed); stderr so far: {}", clip(&stderr, 200)) },
    }
}

pub struct C19;

impl Prop for C19 {
    fn id(&self) -> &'static str { "C19" }
    fn level(&self) -> &'static str { "exploration" }
    fn n_cases(&self, tier: Tier) -> usize { cases(tier).len() }
    fn case_label(&self, tier: Tier, idx: usize) -> String { cases(tier)[idx].0.clone() }
    fn stall_secs(&self) -> u64 { 180 }
    fn exhaustive_when_uncapped(&self) -> bool { true }
    fn rule(&self) -> String {
        "the real gamedig_cli binary (built from the working tree, hooks off) is run as a subprocess against loopback servers \
         driven by the reference models. (1) 17 game ids (one or more per protocol family) x 2 output modes x 6 formats x string-class \
         assignments: every server-supplied string slot (name, map, version, keywords, player name, rule key, rule value, \
         description) takes each class of {plain, markup <&>\"', control characters, non-ASCII, surrounding/inner spaces, empty}, \
         one non-plain slot at a time (quick) / two (thorough); plus a large response (Valve: 100 players and 150 rules in split replies; Java: a 9 kB server icon). Oracle: exit 0 and exactly one document that parses (json: \
         serde_json; xml: a strict XML 1.1 well-formedness checker; bson: hex/base64 decode + BSON parse; debug: non-empty) and \
         whose values equal what the library returns in-process for the same server. (2) every id of the definitions table (97, \
         Eco over loopback HTTP) against its family's seed server: 2 of the 12 (mode, format) pairs per id, rotating, in the quick tier; \
         all 12 in thorough. (3) invalid invocations (unknown game ids of 30+ shapes: empty, 1-3 letters, wrong case, suffixed, multi-byte characters at byte offsets 0..5, \
         unresolvable host, closed UDP port / refused TCP for one game of every protocol family incl. the HTTP one, each flag with missing / empty / 0 / -1 / non-numeric / out-of-range \
         values): non-zero exit other than 101, a message on stderr, no 'panicked at'. distinct_nontrivial = distinct (game, \
         slot, class, mode, format, verdict) tuples"
            .into()
    }
    fn assumptions(&self) -> Vec<String> {
        vec![
            "characters a wire format cannot carry in a slot (its delimiters) are removed from the class text".into(),
            "the XML oracle is a purpose-built checker for the subset the CLI emits (no attributes, comments, CDATA)".into(),
        ]
    }
    fn run_case(&self, tier: Tier, idx: usize, ctx: &mut Ctx) {
        let (label, what) = cases(tier)[idx].clone();
        if !std::path::Path::new(CLI).exists() {
            ctx.violation("MACHINERY:cli-not-built", &[], CLI, "", "", vec![]);
            return;
        }
        let ip = IpAddr::V4(Ipv4Addr::LOCALHOST);
        match what {
            What::Game { gi, part, parts } => {
                let g = &GAMES_UNDER_TEST[gi];
                let game = gamedig::GAMES.get(g.id).unwrap();
                let mut assignments: Vec<Vec<(&'static str, &'static str, String)>> = vec![vec![]];
                let mut singles: Vec<(&'static str, &'static str, String)> = Vec::new();
                for slot in g.slots {
                    // (every Unreal 2 query waits for a one-second read timeout: one slot in the quick tier)
                    if g.id == "killingfloor" && !tier.is_thorough() && *slot != "rule-key" {
                        continue;
                    }
                    for (cname, ctext) in CLASSES.iter().skip(1) {
                        singles.push((slot, cname, sanitize(g.id, slot, ctext)));
                    }
                    if *slot == "rule-key" {
                        for (cname, ctext) in KEY_CLASSES.iter() {
                            singles.push((slot, cname, sanitize(g.id, slot, ctext)));
                        }
                    }
                }
                for a in &singles {
                    assignments.push(vec![a.clone()]);
                }
                // a large response (document well above any internal block size)
                if matches!(g.id, "teamfortress2" | "minecraftjava") {
                    assignments.push(vec![("big", "large-response", String::new())]);
                }
                // 64-bit fields at the top of their range (a SteamID / GameID of u64::MAX): every format has to carry them
                if matches!(g.id, "teamfortress2") {
                    assignments.push(vec![("u64max", "64-bit-fields-at-their-maximum", String::new())]);
                }
                // thorough: every two different slots non-plain at once (all class pairs)
                if tier.is_thorough() && g.id != "killingfloor" {
                    for (i, a) in singles.iter().enumerate() {
                        for b in singles.iter().skip(i + 1) {
                            if a.0 != b.0 {
                                assignments.push(vec![a.clone(), b.clone()]);
                            }
                        }
                    }
                }
                let mut n = 0u64;
                for a in assignments.into_iter().enumerate().filter(|(i, _)| i % parts == part).map(|(_, a)| a) {
                    let server_fn = server_for_cli(g.id, a.iter().map(|(s, _, t)| (*s, t.clone())).collect());
                    let server = if g.tcp { super::c12::spawn_tcp_pub(ip, server_fn.clone(), usize::MAX) } else { super::c12::spawn_udp_pub(ip, server_fn.clone(), usize::MAX) };
                    let Some(server) = server else {
                        ctx.violation("MACHINERY:loopback-unavailable", &[], "cannot bind 127.0.0.1", "", "", vec![]);
                        return;
                    };
                    let port = server.port;
                    // what the library returns for this server
                    let ts = TimeoutSettings::new(Some(Duration::from_secs(2)), Some(Duration::from_secs(2)), Some(Duration::from_secs(2)), 0).ok();
                    let lib = gamedig::query_with_timeout_and_extra_settings(game, &ip, Some(port), ts, None);
                    let (lib_generic, lib_specific) = match &lib {
                        Ok(r) => (Some(generic_from_accessors(r.as_ref())), Some(to_json(&r.as_original()))),
                        Err(_) => (None, None),
                    };
                    let slot_desc = if a.is_empty() { "all plain".to_string() } else { a.iter().map(|(s, c, _)| format!("{s}={c}")).collect::<Vec<_>>().join(" + ") };
                    for mode in MODES {
                        for format in FORMATS {
                            // Unreal 2 queries always wait for one read timeout per list: fewer combinations in the quick tier
                            if g.id == "killingfloor" && !tier.is_thorough() && !matches!(format, "json" | "xml" | "bson-hex") {
                                continue;
                            }
                            n += 1;
                            crate::crumb::mark(ctx.case, &[n as u32]);
                            let args: Vec<String> = ["query", "-g", g.id, "-i", "127.0.0.1", "-p", &port.to_string(), "-f", format, "-o", mode, "--read-timeout", "1", "--connect-timeout", "1"].iter().map(|s| s.to_string()).collect();
                            let mut r = run_cli(&args);
                            // a timeout against the healthy loopback server can only be scheduling noise: run again
                            // (a deterministic failure fails three times)
                            for _ in 0 .. 2 {
                                if r.code != Some(0) && lib_generic.is_some() && (r.stderr.contains("PacketReceive") || r.stderr.contains("PacketSend")) {
                                    r = run_cli(&args);
                                }
                            }
                            let want = if mode == "generic" { &lib_generic } else { &lib_specific };
                            let verdict = judge(format, want, lib.as_ref().err().map(|e| format!("{:?}", e.kind)), &r);
                            ctx.distinct_key(&(g.id, slot_desc.clone(), mode, format, verdict.as_ref().map(|v| v.0.clone())));
                            if let Some((class, detail)) = verdict {
                                ctx.violation(format!("cli:{class}"), &[], format!("game {} mode {mode} format {format} with {slot_desc}: {detail}", g.id), panic_kind(&clip(&String::from_utf8_lossy(&r.stdout), 400)), "one well-formed document with the library's values, exit 0", vec![]);
                            }
                        }
                    }
                    drop(server);
                }
                ctx.counters.evaluations += n;
                ctx.counters.states += n;
                ctx.counters.transitions += n;
                ctx.sample(serde_json::json!({"case": label, "cli_runs": n}));
            }
            What::AllIds { chunk } => {
                let ids = all_ids();
                let part: Vec<&'static str> = ids[chunk * CHUNK .. ((chunk + 1) * CHUNK).min(ids.len())].to_vec();
                let mut n = 0u64;
                for (k, id) in part.iter().enumerate() {
                    let gidx = chunk * CHUNK + k;
                    let game = gamedig::GAMES.get(id).unwrap();
                    let fam = family_of_game(game);
                    // the loopback server of the game's family (Eco: a one-shot HTTP server per connection)
                    let tcp = matches!(fam, Some(Family::Java | Family::Legacy(_) | Family::McAuto | Family::McLegacyAuto));
                    let unreal = matches!(fam, Some(Family::Unreal2));
                    let eco_body = super::eco::gen_eco(&mut crate::vnet::Chooser::new(&[])).json().into_bytes();
                    let mut combos: Vec<(&str, &str)> = Vec::new();
                    for (mi, mode) in MODES.iter().enumerate() {
                        for (fi, format) in FORMATS.iter().enumerate() {
                            // quick: two of the twelve (mode, format) pairs per id, rotating with the id's index so that every
                            // pair is used by many ids; thorough: all twelve
                            let take = tier.is_thorough() || (fi == gidx % 6 && mi == 0) || (fi == (gidx + 3) % 6 && mi == 1);
                            if take && !(unreal && !tier.is_thorough() && mi == 1) {
                                combos.push((mode, format));
                            }
                        }
                    }
                    let server = match fam {
                        None => None,
                        Some(_) => {
                            let sf = crate::targets::server_for_game(game).unwrap();
                            let l = if tcp { super::c12::spawn_tcp_pub(ip, sf, usize::MAX) } else { super::c12::spawn_udp_pub(ip, sf, usize::MAX) };
                            let Some(l) = l else {
                                ctx.violation("MACHINERY:loopback-unavailable", &[], "cannot bind 127.0.0.1", "", "", vec![]);
                                return;
                            };
                            Some(l)
                        }
                    };
                    let port_for = |_: ()| -> u16 {
                        match &server {
                            Some(l) => l.port,
                            None => super::eco::serve_once(ip, eco_body.clone(), 0).0,
                        }
                    };
                    let ts = TimeoutSettings::new(Some(Duration::from_secs(2)), Some(Duration::from_secs(2)), Some(Duration::from_secs(2)), 0).ok();
                    let lib = gamedig::query_with_timeout_and_extra_settings(game, &ip, Some(port_for(())), ts, None);
                    let (lib_generic, lib_specific) = match &lib {
                        Ok(r) => (Some(generic_from_accessors(r.as_ref())), Some(to_json(&r.as_original()))),
                        Err(_) => (None, None),
                    };
                    if lib.is_err() {
                        // the reference server of every family answers its own client: anything else is a harness fault
                        ctx.violation("MACHINERY:library-query-fails-against-reference-server", &[], format!("{id}: {:?}", lib.as_ref().err()), "", "", vec![]);
                        continue;
                    }
                    for (mode, format) in combos {
                        n += 1;
                        crate::crumb::mark(ctx.case, &[n as u32]);
                        // every third id is addressed by name (the CLI resolves it and passes it on as host name) - if this
                        // machine resolves "localhost" to the IPv4 loopback first, where the reference servers listen
                        let by_name = gidx % 3 == 0 && localhost_is_ipv4_loopback();
                        let host = if by_name { "localhost" } else { "127.0.0.1" };
                        let mk = |port: u16| -> Vec<String> { ["query", "-g", id, "-i", host, "-p", &port.to_string(), "-f", format, "-o", mode, "--read-timeout", "1", "--connect-timeout", "1"].iter().map(|s| s.to_string()).collect() };
                        let mut r = run_cli(&mk(port_for(())));
                        for _ in 0 .. 2 {
                            if r.code != Some(0) && (r.stderr.contains("PacketReceive") || r.stderr.contains("PacketSend")) {
                                r = run_cli(&mk(port_for(())));
                            }
                        }
                        let want = if mode == "generic" { &lib_generic } else { &lib_specific };
                        let verdict = judge(format, want, None, &r);
                        ctx.distinct_key(&(*id, mode, format, verdict.as_ref().map(|v| v.0.clone())));
                        if let Some((class, detail)) = verdict {
                            ctx.violation(format!("cli:{class}"), &[], format!("game {id} mode {mode} format {format} (seed state): {detail}"), panic_kind(&clip(&String::from_utf8_lossy(&r.stdout), 400)), "one well-formed document with the library's values, exit 0", vec![]);
                        }
                    }
                    drop(server);
                }
                ctx.counters.evaluations += n;
                ctx.counters.states += n;
                ctx.counters.transitions += n;
                ctx.sample(serde_json::json!({"case": label, "cli_runs": n, "ids": part}));
            }
            What::Invalid => {
                // a UDP port with nothing behind it and a TCP port that refuses
                let closed_udp = super::common::closed_port(ip, false).unwrap_or(9);
                let refused_tcp = super::common::closed_port(ip, true).unwrap_or(9);
                let base = |game: &str, host: &str, port: u16| -> Vec<String> { vec!["query".into(), "-g".into(), game.into(), "-i".into(), host.into(), "-p".into(), port.to_string(), "--read-timeout".into(), "1".into(), "--connect-timeout".into(), "1".into()] };
                let mut invocations: Vec<(String, Vec<String>)> = vec![
                    ("unknown game".into(), base("nosuchgame", "127.0.0.1", closed_udp)),
                    ("unresolvable host".into(), base("teamfortress2", "no-such-host.invalid", closed_udp)),
                    ("unresolvable host (empty)".into(), base("teamfortress2", "", closed_udp)),
                    ("unresolvable host (non-ASCII)".into(), base("teamfortress2", "tf²–nö.invalid", closed_udp)),
                    ("closed UDP port".into(), base("teamfortress2", "127.0.0.1", closed_udp)),
                    ("refused TCP".into(), base("minecraftjava", "127.0.0.1", refused_tcp)),
                    // (the HTTP family reports a transport error that wraps the socket error: a cause with a cause)
                    ("refused TCP (HTTP family)".into(), base("eco", "127.0.0.1", refused_tcp)),
                    ("closed UDP port (Quake)".into(), base("q3a", "127.0.0.1", closed_udp)),
                    ("closed UDP port (Unreal 2)".into(), base("unrealtournament2004", "127.0.0.1", closed_udp)),
                    ("closed UDP port (GameSpy)".into(), base("battlefield1942", "127.0.0.1", closed_udp)),
                    ("refused TCP / closed UDP (Minecraft auto)".into(), base("minecraft", "127.0.0.1", refused_tcp)),
                    ("no subcommand".into(), vec![]),
                    ("missing game".into(), vec!["query".into(), "-i".into(), "127.0.0.1".into()]),
                ];
                // unknown game ids of every small shape: empty, shorter / longer than any prefix a message might quote, upper case
                // of a known id, a known id with a suffix, and multi-byte characters straddling every small byte offset
                let mut unknown_ids: Vec<String> = ["", "t", "tf", "tf2", "TEAMFORTRESS2", "teamfortress2 ", "teamfortress22", "a b", "%s%n", "\u{1}"].iter().map(|s| s.to_string()).collect();
                for lead in 0 ..= 4usize {
                    for ch in ["é", "²", "–", "😀"] {
                        unknown_ids.push(format!("{}{ch}{ch}x", "q".repeat(lead)));
                    }
                }
                unknown_ids.push("マイクラ".into());
                for id in unknown_ids {
                    invocations.push((format!("unknown game {id:?}"), base(&id, "127.0.0.1", closed_udp)));
                }
                for flag in ["--port", "--read-timeout", "--write-timeout", "--connect-timeout", "--retries", "--format", "--output-mode", "--protocol-version", "--gather-players", "--gather-rules", "--check-app-id", "--hostname"] {
                    for (vname, val) in [("missing", None), ("empty", Some("")), ("zero", Some("0")), ("negative", Some("-1")), ("non-numeric", Some("abc")), ("out of range", Some("99999999999999999999999"))] {
                        // values that are legitimate for the flag are not invalid invocations
                        let legit = matches!((flag, vname), ("--retries", "zero") | ("--protocol-version", "zero") | ("--protocol-version", "negative") | ("--hostname", "empty") | ("--hostname", "zero") | ("--hostname", "negative") | ("--hostname", "non-numeric") | ("--hostname", "out of range") | ("--port", "zero"));
                        if legit {
                            continue;
                        }
                        let mut args = vec!["query".to_string(), "-g".into(), "teamfortress2".into(), "-i".into(), "127.0.0.1".into()];
                        if flag != "--port" {
                            args.extend(["-p".to_string(), closed_udp.to_string()]);
                        }
                        if !flag.ends_with("-timeout") {
                            args.extend(["--read-timeout".to_string(), "1".into()]);
                        }
                        args.push(flag.to_string());
                        if let Some(v) = val {
                            // clap would take "-1" for a flag: pass as --flag=-1
                            if v.starts_with('-') {
                                args.pop();
                                args.push(format!("{flag}={v}"));
                            } else {
                                args.push(v.to_string());
                            }
                        }
                        invocations.push((format!("{flag} {vname}"), args));
                    }
                }
                let mut n = 0u64;
                for (name, args) in invocations {
                    n += 1;
                    crate::crumb::mark(ctx.case, &[n as u32]);
                    let r = run_cli(&args);
                    let bad = if r.stderr.contains("panicked at") || r.code == Some(101) {
                        Some(("panic", format!("exit {:?}, stderr {:?}", r.code, clip(&r.stderr, 300))))
                    } else if r.code == Some(0) {
                        Some(("exit-0", format!("exit 0, stdout {:?}", clip(&String::from_utf8_lossy(&r.stdout), 200))))
                    } else if r.code.is_none() {
                        Some(("killed", r.stderr.clone()))
                    } else if r.stderr.trim().is_empty() {
                        Some(("no-message", format!("exit {:?} with empty stderr", r.code)))
                    } else {
                        None
                    };
                    ctx.distinct_key(&(name.clone(), bad.as_ref().map(|b| b.0)));
                    if let Some((kind, d)) = bad {
                        ctx.violation(format!("cli:invalid-invocation:{kind}"), &[], format!("{name}: {args:?}: {d}"), panic_kind(&d), "non-zero exit (not 101), a message on stderr, no panic", vec![]);
                    }
                }
                ctx.counters.evaluations += n;
                ctx.counters.states += n;
                ctx.counters.transitions += n;
                ctx.sample(serde_json::json!({"case": label, "invocations": n}));
            }
        }
    }
}


fn localhost_is_ipv4_loopback() -> bool {
    use std::net::ToSocketAddrs;
    static R: OnceLock<bool> = OnceLock::new();
    *R.get_or_init(|| ("localhost", 0u16).to_socket_addrs().ok().and_then(|mut a| a.next()).is_some_and(|a| a.ip() == IpAddr::V4(Ipv4Addr::LOCALHOST)))
}


/// The protocol-independent document as the accessors define it (not through `as_json()`, whose agreement with the accessors
/// is C15's subject): the nine values and, where the response lists players, their names and scores.
fn generic_from_accessors(r: &dyn gamedig::protocols::types::CommonResponse) -> Value {
    canon(serde_json::json!({
        "name": r.name(),
        "description": r.description(),
        "game_mode": r.game_mode(),
        "game_version": r.game_version(),
        "map": r.map(),
        "players_maximum": r.players_maximum(),
        "players_online": r.players_online(),
        "players_bots": r.players_bots(),
        "has_password": r.has_password(),
        "players": r.players().map(|ps| ps.iter().map(|p| serde_json::json!({"name": p.name(), "score": p.score()})).collect::<Vec<_>>()),
    }))
}
