//! C01 — hostile server responses never crash or hang a query.

use super::common::*;
use crate::explore::{explore, ExploreCfg};
use crate::hostile::{Hostile, MenuKind};
use crate::prop::Prop;
use crate::report::{Ctx, Tier};
use crate::run::run_query;
use crate::targets::*;
use crate::vnet::Chooser;
use gamedig::protocols::types::TimeoutSettings;
use std::sync::OnceLock;
use std::time::Duration;

#[derive(Clone)]
struct Case {
    label: String,
    target: Target,
    retries: usize,
    first: MenuKind,
    after: Option<MenuKind>,
    tail_len: usize,
    extremes_only: bool,
}

fn build(tier: Tier) -> Vec<Case> {
    let mut v = Vec::new();
    let thorough = tier.is_thorough();
    for t in protocol_targets() {
        // the full gather-toggle product is explored with the reduced menu except for Try/Try and Enforce/Enforce
        let full = match t.toggles {
            None => true,
            Some((p, r)) => p == r && p != gamedig::protocols::types::GatherToggle::Skip,
        };
        for retries in [0usize, 1] {
            if retries == 1 && !t.honours_timeout {
                continue;
            }
            let first = if full && (retries == 0 || thorough) { MenuKind::Full } else { MenuKind::Reduced };
            v.push(Case {
                label: format!("{} retries={retries} X(1) {first:?}", t.name),
                target: t.clone(),
                retries,
                first,
                after: None,
                tail_len: if thorough { 4 } else { 3 },
                extremes_only: false,
            });
        }
        // two structural extremes in a row (inconsistent sequences of datagrams: a "last" fragment followed by a
        // higher-numbered one, two different totals ...): in the quick tier for the formats that number their datagrams (GameSpy 1 parts, GameSpy 3 splitnum packets,
        // master-server pages); the Valve transport gets X(2) in the thorough tier
        if full && matches!(t.family, Family::Gs1 | Family::Gs3 | Family::Master) {
            v.push(Case {
                label: format!("{} retries=0 X(2) structural extremes only", t.name),
                target: t.clone(),
                retries: 0,
                first: MenuKind::Reduced,
                after: Some(MenuKind::Reduced),
                tail_len: 1,
                extremes_only: true,
            });
        }
        if thorough && full {
            v.push(Case {
                label: format!("{} retries=0 X(2) Reduced+Second", t.name),
                target: t.clone(),
                retries: 0,
                first: MenuKind::Reduced,
                after: Some(MenuKind::Second),
                tail_len: 2,
                extremes_only: false,
            });
        }
    }
    for t in dispatch_targets().into_iter().chain(wrapper_targets()) {
        v.push(Case {
            label: format!("{} X(1) Reduced", t.name),
            target: t,
            retries: 0,
            first: MenuKind::Reduced,
            after: None,
            tail_len: 2,
            extremes_only: false,
        });
    }
    v
}

static QUICK: OnceLock<Vec<Case>> = OnceLock::new();
static THOROUGH: OnceLock<Vec<Case>> = OnceLock::new();
fn cases(tier: Tier) -> &'static Vec<Case> {
    match tier {
        Tier::Quick => QUICK.get_or_init(|| build(Tier::Quick)),
        Tier::Thorough => THOROUGH.get_or_init(|| build(Tier::Thorough)),
    }
}

pub fn timeouts(retries: usize) -> Option<TimeoutSettings> {
    Some(
        TimeoutSettings::new(
            Some(Duration::from_millis(50)),
            Some(Duration::from_millis(50)),
            Some(Duration::from_millis(50)),
            retries,
        )
        .unwrap(),
    )
}

pub struct C01;

impl Prop for C01 {
    fn id(&self) -> &'static str { "C01" }
    fn n_cases(&self, tier: Tier) -> usize { cases(tier).len() }
    fn case_label(&self, tier: Tier, idx: usize) -> String { cases(tier)[idx].label.clone() }
    fn rule(&self) -> String {
        "case = (entry point incl. engine / gather settings, retry count, menu); the reference server is in its seed state \
         (all optional parts, 2 players, 2 rules, challenge round, lists split in two). At every receive the menu is: 0 the \
         well-formed datagram; every proper prefix; every single-byte substitution at every offset with {00,01,02,0A,5C,7F,80,FE,FF}; the valid two-byte UTF-8 character C3 A9 written over every pair of adjacent bytes; \
         every decimal number replaced by each of 7 boundary texts; every byte string of length <= 3 (quick) / 4 (thorough) over \
         {00,01,0A,5C,80,C3,FE,FF} appended to each header prefix; format-specific structural extremes; three 65507-byte datagrams; \
         timeout; TCP connects may be refused. X(1) = all executions with one deviation (complete); X(2) over the structural extremes alone (every pair of extremes at any two receives) for GameSpy 1, GameSpy 3 and the master server; thorough adds X(2) with the \
         second deviation from the reduced menu. Every GAMES entry through the generic dispatch and every macro-generated \
         games::<id>::query run X(1) with the reduced menu (prefixes + extremes + oversize + timeout). Oracle: the call returns \
         Ok or Err — no panic (overflow checks on), no process death, no hang after silence. distinct_nontrivial = distinct \
         (outcome class, wire-log shape) pairs"
            .into()
    }
    fn assumptions(&self) -> Vec<String> {
        vec![
            "build profile: overflow-checks and debug-assertions on, panic=unwind".into(),
            "'does not return' = more than 64 consecutive receive timeouts or 8192 socket operations in one query".into(),
            "Eco (HTTP) is not driven through the virtual network; its totality is covered by C13's loopback responder".into(),
        ]
    }
    fn stall_secs(&self) -> u64 { 60 }
    fn run_case(&self, tier: Tier, idx: usize, ctx: &mut Ctx) {
        let case = cases(tier)[idx].clone();
        let bound = if case.after.is_some() { 2 } else { 1 };
        let tag = case.target.name.split(' ').next().unwrap_or("").to_string();
        explore(
            ctx,
            &ExploreCfg::bound(bound),
            |prefix| {
                let ch = Chooser::new(prefix);
                let server = (case.target.server)();
                let policy = Hostile {
                    family: case.target.family,
                    wide: false,
                    first: case.first,
                    after: case.after,
                    tail_len: case.tail_len,
                    refuse_tcp: true,
                    extremes_only: case.extremes_only,
                };
                let ts = timeouts(case.retries);
                let call = case.target.call.clone();
                (run_query(server, Box::new(policy), ch, || call(ts)), ())
            },
            |ctx, x, _| {
                if check_total(ctx, x, &tag) && x.choices().iter().all(|c| *c == 0) {
                    ctx.sample(serde_json::json!({"case": case.label, "default_run": x.outcome.class(), "wire_events": x.log.len(), "choice_points": x.points.len(), "menus": x.points.iter().map(|p| p.menu).collect::<Vec<_>>() }));
                }
            },
        );
    }
}
