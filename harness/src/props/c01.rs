//! C01 — hostile server responses never crash or hang a query.

use super::common::*;
use crate::explore::{explore, ExploreCfg};
use crate::hostile::{Hostile, MenuKind};
use crate::prop::Prop;
use crate::report::{Ctx, Tier};
use crate::run::run_query;
use crate::targets::*;
use crate::vnet::Chooser;
use gamedig::protocols::types::TimeoutSettings;
use std::sync::OnceLock;
use std::time::Duration;

#[derive(Clone)]
struct Case {
    label: String,
    /// the Eco (HTTP) entry point does not go through the socket seam: hostile raw HTTP replies over loopback
    eco_http: bool,
    /// Some(k): the server answers request k and every later request with the reply it gave to request k (a stuck server:
    /// the same challenge, the same page, the same part again and again)
    stuck_at: Option<usize>,
    target: Target,
    retries: usize,
    first: MenuKind,
    after: Option<MenuKind>,
    tail_len: usize,
    extremes_only: bool,
}

fn build(tier: Tier) -> Vec<Case> {
    let mut v = Vec::new();
    let thorough = tier.is_thorough();
    for t in protocol_targets() {
        // the full gather-toggle product is explored with the reduced menu except for Try/Try and Enforce/Enforce
        let full = match t.toggles {
            None => true,
            Some((p, r)) => p == r && p != gamedig::protocols::types::GatherToggle::Skip,
        };
        for retries in [0usize, 1] {
            if retries == 1 && !t.honours_timeout {
                continue;
            }
            let first = if full && (retries == 0 || thorough) { MenuKind::Full } else { MenuKind::Reduced };
            v.push(Case {
                label: format!("{} retries={retries} X(1) {first:?}", t.name),
                eco_http: false,
                stuck_at: None,
                target: t.clone(),
                retries,
                first,
                after: None,
                tail_len: if thorough { 4 } else { 3 },
                extremes_only: false,
            });
        }
        // two structural extremes in a row (inconsistent sequences of datagrams: a "last" fragment followed by a
        // higher-numbered one, two different totals ...): in the quick tier for the formats that number their datagrams (GameSpy 1 parts, GameSpy 3 splitnum packets,
        // master-server pages); the Valve transport gets X(2) in the thorough tier
        if full && matches!(t.family, Family::Gs1 | Family::Gs3 | Family::Master) {
            v.push(Case {
                label: format!("{} retries=0 X(2) structural extremes only", t.name),
                eco_http: false,
                stuck_at: None,
                target: t.clone(),
                retries: 0,
                first: MenuKind::Reduced,
                after: Some(MenuKind::Reduced),
                tail_len: 1,
                extremes_only: true,
            });
        }
        if thorough && full {
            v.push(Case {
                label: format!("{} retries=0 X(2) Reduced+Second", t.name),
                eco_http: false,
                stuck_at: None,
                target: t.clone(),
                retries: 0,
                first: MenuKind::Reduced,
                after: Some(MenuKind::Second),
                tail_len: 2,
                extremes_only: false,
            });
        }
    }
    for t in protocol_targets() {
        if !full_family(&t) {
            continue;
        }
        for k in 0 .. 4usize {
            v.push(Case {
                label: format!("{} stuck server: the reply to request {k} is repeated for every later request", t.name),
                eco_http: false,
                stuck_at: Some(k),
                target: t.clone(),
                retries: if k % 2 == 0 { 0 } else { 2 },
                first: MenuKind::Reduced,
                after: None,
                tail_len: 1,
                extremes_only: false,
            });
        }
    }
    v.push(Case {
        label: "eco::query_with_timeout: hostile raw HTTP replies over loopback".into(),
        eco_http: true,
        stuck_at: None,
        target: protocol_targets().into_iter().next().unwrap(),
        retries: 0,
        first: MenuKind::Reduced,
        after: None,
        tail_len: 1,
        extremes_only: false,
    });
    for t in dispatch_targets().into_iter().chain(wrapper_targets()) {
        v.push(Case {
            label: format!("{} X(1) Reduced", t.name),
            eco_http: false,
                stuck_at: None,
            target: t,
            retries: 0,
            first: MenuKind::Reduced,
            after: None,
            tail_len: 2,
            extremes_only: false,
        });
    }
    v
}

static QUICK: OnceLock<Vec<Case>> = OnceLock::new();
static THOROUGH: OnceLock<Vec<Case>> = OnceLock::new();
fn cases(tier: Tier) -> &'static Vec<Case> {
    match tier {
        Tier::Quick => QUICK.get_or_init(|| build(Tier::Quick)),
        Tier::Thorough => THOROUGH.get_or_init(|| build(Tier::Thorough)),
    }
}

/// Read timeout only (write and connect left unset): whatever bounds a receive must be the READ timeout.
pub fn timeouts_read_only(retries: usize) -> Option<TimeoutSettings> {
    Some(TimeoutSettings::new(Some(Duration::from_millis(50)), None, None, retries).unwrap())
}

pub fn timeouts(retries: usize) -> Option<TimeoutSettings> {
    Some(
        TimeoutSettings::new(
            Some(Duration::from_millis(50)),
            Some(Duration::from_millis(50)),
            Some(Duration::from_millis(50)),
            retries,
        )
        .unwrap(),
    )
}

pub struct C01;

impl Prop for C01 {
    fn id(&self) -> &'static str { "C01" }
    fn n_cases(&self, tier: Tier) -> usize { cases(tier).len() }
    fn case_label(&self, tier: Tier, idx: usize) -> String { cases(tier)[idx].label.clone() }
    fn rule(&self) -> String {
        "case = (entry point incl. engine / gather settings, retry count, menu); the reference server is in its seed state \
         (all optional parts, 2 players, 2 rules, challenge round, lists split in two). At every receive the menu is: 0 the \
         well-formed datagram; every proper prefix; every single-byte substitution at every offset with {00,01,02,0A,5C,7F,80,FE,FF}; the valid two-byte UTF-8 characters C3 A9 and C2 A0 (a blank) written over every pair of adjacent bytes; \
         every decimal number replaced by each of 7 boundary texts; every byte string of length <= 3 (quick) / 4 (thorough) over \
         {00,01,0A,5C,80,C3,FE,FF} appended to each header prefix; format-specific structural extremes; three 65507-byte datagrams; \
         timeout; TCP connects may be refused. X(1) = all executions with one deviation (complete); X(2) over the structural extremes alone (every pair of extremes at any two receives) for GameSpy 1, GameSpy 3 and the master server; thorough adds X(2) with the \
         second deviation from the reduced menu. Every GAMES entry through the generic dispatch and every macro-generated \
         games::<id>::query run X(1) with the reduced menu (prefixes + extremes + oversize + timeout). Oracle: the call returns \
         Ok or Err — no panic (overflow checks on), no process death, no hang after silence. distinct_nontrivial = distinct \
         (outcome class, wire-log shape) pairs"
            .into()
    }
    fn assumptions(&self) -> Vec<String> {
        vec![
            "build profile: overflow-checks and debug-assertions on, panic=unwind".into(),
            "'does not return' = more than 64 consecutive receive timeouts or 8192 socket operations in one query".into(),
            "Eco (HTTP) is not driven through the virtual network; its totality is covered by C13's loopback responder".into(),
        ]
    }
    fn stall_secs(&self) -> u64 { 60 }
    fn run_case(&self, tier: Tier, idx: usize, ctx: &mut Ctx) {
        let case = cases(tier)[idx].clone();
        if case.eco_http {
            run_eco_hostile(ctx, &case.label);
            return;
        }
        let tag = case.target.name.split(' ').next().unwrap_or("").to_string();
        if let Some(k) = case.stuck_at {
            let server = Box::new(Stuck { inner: (case.target.server)(), k, seen: 0, frozen: None });
            let call = case.target.call.clone();
            let ts = timeouts_read_only(case.retries);
            let x = run_query(server, Box::new(crate::vnet::Faithful), Chooser::new(&[]), || call(ts));
            ctx.account(&x, 0);
            if check_total(ctx, &x, &format!("{tag}:stuck-server")) && check_no_blocked_receive(ctx, &x, &tag) {
                ctx.distinct_key(&(case.label.clone(), x.outcome.class(), x.log.len()));
                ctx.sample(serde_json::json!({"case": case.label, "outcome": x.outcome.class(), "wire_events": x.log.len()}));
            }
            return;
        }
        let bound = if case.after.is_some() { 2 } else { 1 };
        explore(
            ctx,
            &ExploreCfg::bound(bound),
            |prefix| {
                let ch = Chooser::new(prefix);
                let server = (case.target.server)();
                let policy = Hostile {
                    family: case.target.family,
                    wide: false,
                    first: case.first,
                    after: case.after,
                    tail_len: case.tail_len,
                    refuse_tcp: true,
                    extremes_only: case.extremes_only,
                };
                let ts = timeouts_read_only(case.retries);
                let call = case.target.call.clone();
                (run_query(server, Box::new(policy), ch, || call(ts)), ())
            },
            |ctx, x, _| {
                if check_total(ctx, x, &tag) && check_no_blocked_receive(ctx, x, &tag) && x.choices().iter().all(|c| *c == 0) {
                    ctx.sample(serde_json::json!({"case": case.label, "default_run": x.outcome.class(), "wire_events": x.log.len(), "choice_points": x.points.len(), "menus": x.points.iter().map(|p| p.menu).collect::<Vec<_>>() }));
                }
            },
        );
    }
}

/// Hostile HTTP replies for the Eco query: every reply is written raw by a one-shot loopback server, after
/// which the connection is closed (or, for the last variants, held open).
fn run_eco_hostile(ctx: &mut Ctx, label: &str) {
    use std::io::{Read, Write};
    use std::net::{IpAddr, Ipv4Addr, TcpListener};
    let good = super::eco::gen_eco(&mut Chooser::new(&[])).json();
    let ok_head = "HTTP/1.1 200 OK\r\nContent-Type: application/json\r\nConnection: close\r\n";
    let with_len = |body: &str| format!("{ok_head}Content-Length: {}\r\n\r\n{body}", body.len()).into_bytes();
    let mut replies: Vec<(String, Vec<u8>, bool)> = Vec::new();
    let mut add = |name: &str, bytes: Vec<u8>| replies.push((name.to_string(), bytes, false));
    add("empty reply", vec![]);
    add("garbage status line", b"\xff\xfe\x00garbage\r\n\r\n".to_vec());
    add("status line only", b"HTTP/1.1 200 OK\r\n".to_vec());
    add("HTTP/0.9 style", good.clone().into_bytes());
    add("500 with body", format!("HTTP/1.1 500 Oops\r\nContent-Length: 2\r\n\r\n{{}}").into_bytes());
    add("301 to nowhere", b"HTTP/1.1 301 Moved\r\nLocation: http://127.0.0.1:1/\r\nContent-Length: 0\r\n\r\n".to_vec());
    add("301 loop to self", b"HTTP/1.1 301 Moved\r\nLocation: /frontpage\r\nContent-Length: 0\r\n\r\n".to_vec());
    add("header without colon", format!("HTTP/1.1 200 OK\r\nNoColonHere\r\nContent-Length: 2\r\n\r\n{{}}").into_bytes());
    add("very long header", format!("HTTP/1.1 200 OK\r\nX-Long: {}\r\nContent-Length: 2\r\n\r\n{{}}", "a".repeat(200_000)).into_bytes());
    for body in ["", "{}", "[]", "null", "{\"Info\":null}", "{\"Info\":{}}", "{\"Info\":[]}", "{\"Info\":{\"External\":1}}", "\u{feff}{}", "{\"Info\":", "\"", "{\"Info\":{\"GamePort\":-1}}", "{\"Info\":{\"GamePort\":99999999999999999999}}", "{\"Info\":{\"TimeLeft\":1e999}}"] {
        add(&format!("body {body:?}"), with_len(body));
    }
    add("deeply nested JSON", with_len(&format!("{}{}", "[".repeat(100_000), "]".repeat(100_000))));
    add("good body, Content-Length too short", format!("{ok_head}Content-Length: 10\r\n\r\n{good}").into_bytes());
    add("good body, Content-Length too long", format!("{ok_head}Content-Length: {}\r\n\r\n{good}", good.len() + 100).into_bytes());
    add("good body truncated", with_len(&good)[.. 300].to_vec());
    add("invalid UTF-8 in a string", {
        let mut b = format!("{ok_head}Content-Length: 20\r\n\r\n").into_bytes();
        b.extend_from_slice(b"{\"Info\":{\"a\":\"\xff\xfe\"}}  ");
        b
    });
    add("chunked: bad chunk size", format!("{ok_head}Transfer-Encoding: chunked\r\n\r\nzz\r\n{{}}\r\n0\r\n\r\n").into_bytes());
    add("chunked: huge chunk size", format!("{ok_head}Transfer-Encoding: chunked\r\n\r\nffffffffffffffff\r\n{{}}\r\n").into_bytes());
    add("chunked: missing terminator", format!("{ok_head}Transfer-Encoding: chunked\r\n\r\n2\r\n{{}}\r\n").into_bytes());
    add("gzip: not gzip", format!("{ok_head}Content-Encoding: gzip\r\nContent-Length: 2\r\n\r\n{{}}").into_bytes());
    add("gzip: truncated", {
        let mut enc = flate2::write::GzEncoder::new(Vec::new(), flate2::Compression::default());
        enc.write_all(good.as_bytes()).unwrap();
        let z = enc.finish().unwrap();
        let mut b = format!("{ok_head}Content-Encoding: gzip\r\nContent-Length: {}\r\n\r\n", z.len()).into_bytes();
        b.extend_from_slice(&z[.. z.len() / 2]);
        b
    });
    // replies after which the server keeps the connection open without sending more
    replies.push(("headers then silence (held open)".into(), format!("{ok_head}Content-Length: 100\r\n\r\n").into_bytes(), true));
    replies.push(("half a status line then silence (held open)".into(), b"HTTP/1.".to_vec(), true));

    let ip = IpAddr::V4(Ipv4Addr::LOCALHOST);
    let n = replies.len() as u64;
    for (i, (name, raw, hold)) in replies.into_iter().enumerate() {
        if matches!(&ctx.replay, Some(r) if r.first() != Some(&(i as u32))) {
            continue;
        }
        crate::crumb::mark(ctx.case, &[i as u32]);
        let listener = TcpListener::bind((ip, 0)).expect("bind loopback");
        let port = listener.local_addr().unwrap().port();
        let (tx, rx) = std::sync::mpsc::channel::<()>();
        let server = std::thread::spawn(move || {
            if let Ok((mut s, _)) = listener.accept() {
                let mut buf = [0u8; 2048];
                let _ = s.read(&mut buf);
                let _ = s.write_all(&raw);
                if hold {
                    let _ = rx.recv_timeout(std::time::Duration::from_secs(10));
                }
            }
        });
        let ts = gamedig::TimeoutSettings::new(Some(std::time::Duration::from_millis(400)), Some(std::time::Duration::from_millis(400)), Some(std::time::Duration::from_millis(400)), 0).ok();
        let t0 = std::time::Instant::now();
        let r = crate::run::run_pure(|| gamedig::games::eco::query_with_timeout(&ip, Some(port), &ts));
        let elapsed = t0.elapsed();
        let _ = tx.send(());
        let _ = server.join();
        ctx.counters.evaluations += 1;
        ctx.counters.states += 1;
        ctx.counters.transitions += 2;
        ctx.distinct_key(&(name.clone(), format!("{:?}", r.as_ref().map(|x| x.as_ref().map(|_| ()).map_err(|e| e.kind.clone())).map_err(|_| ()))));
        match r {
            Err((msg, loc)) => {
                let file = loc.rsplit_once(':').map_or(loc.as_str(), |p| p.0).to_string();
                ctx.violation(format!("panic:{file}:{}", panic_kind(&msg)), &[i as u32], format!("Eco query against the HTTP reply '{name}'"), format!("PANIC at {loc}: {msg}"), "Ok or Err", vec![]);
            }
            Ok(_) if elapsed > std::time::Duration::from_secs(5) => {
                ctx.violation("hang:eco-http", &[i as u32], format!("Eco query against the HTTP reply '{name}' took {elapsed:?} with 400 ms timeouts"), format!("{elapsed:?}"), "returns within the timeouts", vec![]);
            }
            Ok(_) => {}
        }
    }
    ctx.sample(serde_json::json!({"case": label, "raw_http_replies": n}));
}


/// Answers request `k` and every later request with the reply the real server gave to request `k`.
struct Stuck {
    inner: Box<dyn crate::vnet::Responder>,
    k: usize,
    seen: usize,
    frozen: Option<Vec<Vec<u8>>>,
}

impl crate::vnet::Responder for Stuck {
    fn accept(&mut self, tcp: bool, addr: &std::net::SocketAddr) -> bool { self.inner.accept(tcp, addr) }
    fn on_datagram(&mut self, conn: &crate::vnet::ConnInfo, data: &[u8]) -> Vec<Vec<u8>> {
        let n = self.seen;
        self.seen += 1;
        if let Some(f) = &self.frozen {
            return f.clone();
        }
        let r = self.inner.on_datagram(conn, data);
        if n >= self.k && !r.is_empty() {
            self.frozen = Some(r.clone());
        }
        r
    }
    fn stream(&mut self, conn: &crate::vnet::ConnInfo) -> Option<Vec<u8>> { self.inner.stream(conn) }
}

fn full_family(t: &Target) -> bool { !matches!(t.family, Family::Java | Family::Legacy(_) | Family::McLegacyAuto) }
