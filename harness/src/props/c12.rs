//! C12 — timeouts bound every blocking step on real sockets (Engine R: the
//! fault / configuration matrix is enumerated completely against loopback servers).

use super::c02::EngineCfg;
use super::common::*;
use crate::prop::Prop;
use crate::report::{Ctx, Tier};
use crate::rsm::minecraft::LegacyKind;
use crate::rsm::quake::Ver;
use crate::run::{run_query, Outcome};
use crate::targets::*;
use crate::vnet::{Chooser, ConnInfo, Pick, Policy, RecvPoint, WireEvent};
use gamedig::protocols::types::TimeoutSettings;
use gamedig::verif_hook::{Socket, TcpSocket, UdpSocket};
use gamedig::{GDErrorKind, GDResult};
use serde_json::Value;
use std::io::{Read, Write};
use std::net::{IpAddr, Ipv4Addr, Ipv6Addr, SocketAddr, TcpListener, UdpSocket as StdUdp};
use std::sync::atomic::{AtomicBool, AtomicUsize, Ordering};
use std::sync::{mpsc, Arc, Mutex, OnceLock};
use std::time::{Duration, Instant};

const SLACK: Duration = Duration::from_millis(1500);

/// After `k` delivered datagrams / streams the server is silent for good (twin run).
struct SilentAfter {
    k: usize,
    delivered: usize,
}
impl Policy for SilentAfter {
    fn recv_pick(&mut self, pt: &RecvPoint, _idx: usize) -> Pick {
        if pt.queue.is_empty() {
            return Pick::Head;
        }
        if self.delivered >= self.k {
            return Pick::Timeout { drop_all: true };
        }
        self.delivered += 1;
        Pick::Head
    }
}

type Call = Arc<dyn Fn(IpAddr, u16, Option<TimeoutSettings>) -> GDResult<Value> + Send + Sync>;

#[derive(Clone)]
struct Entry {
    name: &'static str,
    family: Family,
    tcp: bool,
    call: Call,
    /// number of reply datagrams of a complete exchange (silence points 0..=this)
    replies: usize,
}

fn j<T: serde::Serialize>(r: GDResult<T>) -> GDResult<Value> { r.map(|t| to_json(&t)) }

fn entries() -> Vec<Entry> {
    use gamedig::games::minecraft as mc;
    use gamedig::protocols::types::GatherToggle::Enforce;
    use gamedig::protocols::{gamespy, quake, unreal2, valve};
    vec![
        Entry {
            name: "valve",
            family: Family::Valve(EngineCfg::App440),
            tcp: false,
            call: Arc::new(|ip, port, ts| {
                let gs = valve::GatheringSettings { players: Enforce, rules: Enforce, check_app_id: false };
                j(valve::query(&SocketAddr::new(ip, port), valve::Engine::new(440), Some(gs), ts))
            }),
            replies: 7,
        },
        Entry { name: "gamespy1 (reply in 2 parts)", family: Family::Gs1, tcp: false, call: Arc::new(|ip, port, ts| j(gamespy::one::query(&SocketAddr::new(ip, port), ts))), replies: 2 },
        Entry { name: "gamespy1 query_vars (reply in 2 parts)", family: Family::Gs1, tcp: false, call: Arc::new(|ip, port, ts| j(gamespy::one::query_vars(&SocketAddr::new(ip, port), ts))), replies: 2 },
        Entry { name: "gamespy2", family: Family::Gs2, tcp: false, call: Arc::new(|ip, port, ts| j(gamespy::two::query(&SocketAddr::new(ip, port), ts))), replies: 1 },
        Entry { name: "gamespy3", family: Family::Gs3, tcp: false, call: Arc::new(|ip, port, ts| j(gamespy::three::query(&SocketAddr::new(ip, port), ts))), replies: 3 },
        Entry {
            name: "unreal2",
            family: Family::Unreal2,
            tcp: false,
            call: Arc::new(|ip, port, ts| {
                let gs = unreal2::GatheringSettings { players: Enforce, mutators_and_rules: Enforce };
                j(unreal2::query(&SocketAddr::new(ip, port), &gs, ts))
            }),
            replies: 5,
        },
        Entry { name: "quake3", family: Family::Quake(Ver::Three), tcp: false, call: Arc::new(|ip, port, ts| j(quake::three::query(&SocketAddr::new(ip, port), ts))), replies: 1 },
        Entry { name: "bedrock", family: Family::Bedrock, tcp: false, call: Arc::new(|ip, port, ts| j(mc::protocol::query_bedrock(&SocketAddr::new(ip, port), ts))), replies: 1 },
        Entry { name: "java", family: Family::Java, tcp: true, call: Arc::new(|ip, port, ts| j(mc::protocol::query_java(&SocketAddr::new(ip, port), ts, None))), replies: 1 },
        Entry {
            name: "legacy1.6",
            family: Family::Legacy(LegacyKind::V1_6),
            tcp: true,
            call: Arc::new(|ip, port, ts| j(mc::protocol::query_legacy_specific(mc::LegacyGroup::V1_6, &SocketAddr::new(ip, port), ts))),
            replies: 1,
        },
        // the definition-driven entry point (it has to hand the caller's timeout settings on to the protocol): one TCP and
        // one UDP game
        Entry {
            name: "minecraftlegacy14 (definition-driven)",
            family: Family::Legacy(LegacyKind::V1_4),
            tcp: true,
            call: Arc::new(|ip, port, ts| j(gamedig::query_with_timeout(gamedig::GAMES.get("minecraftlegacy14").unwrap(), &ip, Some(port), ts).map(|r| r.as_json().name.map(str::to_string)))),
            replies: 1,
        },
        Entry {
            name: "q3a (definition-driven)",
            family: Family::Quake(Ver::Three),
            tcp: false,
            call: Arc::new(|ip, port, ts| j(gamedig::query_with_timeout(gamedig::GAMES.get("q3a").unwrap(), &ip, Some(port), ts).map(|r| r.as_json().name.map(str::to_string)))),
            replies: 1,
        },
    ]
}

// ---------------------------------------------------------------------------
// loopback servers driven by the reference models

pub struct Loopback {
    pub port: u16,
    stop: Arc<AtomicBool>,
    sent: Arc<AtomicUsize>,
    received: Arc<Mutex<Vec<Vec<u8>>>>,
}
impl Drop for Loopback {
    fn drop(&mut self) { self.stop.store(true, Ordering::SeqCst); }
}

pub fn spawn_udp_pub(ip: IpAddr, server: ServerFn, allowed: usize) -> Option<Loopback> { spawn_udp(ip, server, allowed) }

fn spawn_udp(ip: IpAddr, server: ServerFn, allowed: usize) -> Option<Loopback> {
    let sock = StdUdp::bind((ip, 0)).ok()?;
    sock.set_read_timeout(Some(Duration::from_millis(20))).ok()?;
    let port = sock.local_addr().ok()?.port();
    let stop = Arc::new(AtomicBool::new(false));
    let sent = Arc::new(AtomicUsize::new(0));
    let received = Arc::new(Mutex::new(Vec::new()));
    let (s2, n2, r2) = (stop.clone(), sent.clone(), received.clone());
    std::thread::spawn(move || {
        // one server-side session per client socket (each query uses a fresh one)
        let mut sessions: std::collections::HashMap<SocketAddr, (Box<dyn crate::vnet::Responder>, ConnInfo)> = std::collections::HashMap::new();
        let mut buf = vec![0u8; 70_000];
        while !s2.load(Ordering::SeqCst) {
            if let Ok((n, from)) = sock.recv_from(&mut buf) {
                let data = buf[.. n].to_vec();
                r2.lock().unwrap().push(data.clone());
                let (responder, conn) = sessions.entry(from).or_insert_with(|| {
                    (server(), ConnInfo { id: 0, tcp: false, addr: SocketAddr::new(ip, port), sent: vec![], receives: 0, eof: false })
                });
                conn.sent.push(data.clone());
                for reply in responder.on_datagram(conn, &data) {
                    if n2.load(Ordering::SeqCst) >= allowed {
                        break;
                    }
                    n2.fetch_add(1, Ordering::SeqCst);
                    let _ = sock.send_to(&reply, from);
                }
            }
        }
    });
    Some(Loopback { port, stop, sent, received })
}

pub fn spawn_tcp_pub(ip: IpAddr, server: ServerFn, allowed: usize) -> Option<Loopback> { spawn_tcp(ip, server, allowed) }

fn spawn_tcp(ip: IpAddr, server: ServerFn, allowed: usize) -> Option<Loopback> { spawn_tcp_opts(ip, server, allowed, false) }

/// `partial_hold`: write only the first half of the stream and then keep the connection open.
fn spawn_tcp_opts(ip: IpAddr, server: ServerFn, allowed: usize, partial_hold: bool) -> Option<Loopback> {
    let listener = TcpListener::bind((ip, 0)).ok()?;
    listener.set_nonblocking(true).ok()?;
    let port = listener.local_addr().ok()?.port();
    let stop = Arc::new(AtomicBool::new(false));
    let sent = Arc::new(AtomicUsize::new(0));
    let received = Arc::new(Mutex::new(Vec::new()));
    let (s2, n2, r2) = (stop.clone(), sent.clone(), received.clone());
    std::thread::spawn(move || {
        let mut responder = server();
        let mut held = Vec::new();
        while !s2.load(Ordering::SeqCst) {
            match listener.accept() {
                Ok((mut s, peer)) => {
                    s.set_nonblocking(false).ok();
                    s.set_read_timeout(Some(Duration::from_millis(20))).ok();
                    let mut conn = ConnInfo { id: 0, tcp: true, addr: peer, sent: vec![], receives: 0, eof: false };
                    let mut answered = false;
                    let t0 = Instant::now();
                    while !s2.load(Ordering::SeqCst) && t0.elapsed() < Duration::from_secs(20) {
                        let mut buf = [0u8; 4096];
                        match s.read(&mut buf) {
                            Ok(0) => break,
                            Ok(n) => {
                                conn.sent.push(buf[.. n].to_vec());
                                r2.lock().unwrap().push(buf[.. n].to_vec());
                            }
                            Err(_) => {}
                        }
                        if n2.load(Ordering::SeqCst) < allowed {
                            if let Some(stream) = responder.stream(&conn) {
                                n2.fetch_add(1, Ordering::SeqCst);
                                if partial_hold {
                                    let _ = s.write_all(&stream[.. stream.len() / 2]);
                                    let _ = s.flush();
                                    break; // not answered: the connection is held open below
                                }
                                let _ = s.write_all(&stream);
                                // half-close and drain what the client still sends, so that the close is not a reset
                                let _ = s.shutdown(std::net::Shutdown::Write);
                                let t1 = Instant::now();
                                while t1.elapsed() < Duration::from_millis(300) {
                                    match s.read(&mut buf) {
                                        Ok(0) => break,
                                        Ok(n) => r2.lock().unwrap().push(buf[.. n].to_vec()),
                                        Err(_) => {}
                                    }
                                }
                                answered = true;
                                break;
                            }
                        }
                    }
                    if !answered {
                        held.push(s); // accept-then-hold: keep the connection open, never answer
                    }
                }
                Err(_) => std::thread::sleep(Duration::from_millis(5)),
            }
        }
        drop(held);
    });
    Some(Loopback { port, stop, sent, received })
}

extern "C" {
    fn listen(fd: i32, backlog: i32) -> i32;
}

/// A loopback TCP endpoint on which a connect neither succeeds nor is refused: a listener with the smallest accept
/// queue, filled with parked connections until a probe connect times out (further SYNs are dropped by the kernel).
struct BlackHole {
    _listener: std::net::TcpListener,
    _parked: Vec<std::net::TcpStream>,
    address: SocketAddr,
}

impl BlackHole {
    fn new(ip: IpAddr) -> Option<Self> {
        use std::os::fd::AsRawFd;
        let listener = std::net::TcpListener::bind(SocketAddr::new(ip, 0)).ok()?;
        let address = listener.local_addr().ok()?;
        if unsafe { listen(listener.as_raw_fd(), 0) } != 0 {
            return None;
        }
        let mut parked = Vec::new();
        let mut full = false;
        for _ in 0 .. 64 {
            match std::net::TcpStream::connect_timeout(&address, Duration::from_millis(300)) {
                Ok(s) => parked.push(s),
                Err(e) if matches!(e.kind(), std::io::ErrorKind::TimedOut | std::io::ErrorKind::WouldBlock) => {
                    full = true;
                    break;
                }
                Err(_) => return None,
            }
        }
        if !full || std::net::TcpStream::connect_timeout(&address, Duration::from_millis(300)).is_ok() {
            return None;
        }
        Some(BlackHole { _listener: listener, _parked: parked, address })
    }
}

/// Run `f` on its own thread; None if it has not returned within `limit`.
fn with_watchdog<T: Send + 'static>(limit: Duration, f: impl FnOnce() -> T + Send + 'static) -> Option<(T, Duration)> {
    let (tx, rx) = mpsc::channel();
    std::thread::spawn(move || {
        let t0 = Instant::now();
        let r = std::panic::catch_unwind(std::panic::AssertUnwindSafe(f));
        let _ = tx.send((r, t0.elapsed()));
    });
    match rx.recv_timeout(limit) {
        Ok((Ok(r), d)) => Some((r, d)),
        Ok((Err(_), _)) => None,
        Err(_) => None,
    }
}

fn class_of(r: &GDResult<Value>) -> String {
    match r {
        Ok(_) => "ok".into(),
        Err(e) => format!("err:{:?}", e.kind),
    }
}

#[derive(Clone)]
enum What {
    /// entry index, silence point, ipv6, timeout ms, retries
    Silence { entry: usize, k: usize, v6: bool, ms: u64, retries: usize, variant: u8 },
    /// special endpoints: 0 = TCP refused, 1 = UDP port closed
    Special { entry: usize, kind: u8, v6: bool, ms: u64, retries: usize },
    /// TCP: a peer that neither accepts nor refuses (listener with a full accept queue); settings 0 = 300 ms given
    /// explicitly, 1 = no settings at all (documented default: 4 s), 2 = Some(TimeoutSettings::default())
    ConnectHole { entry: usize, v6: bool, settings: u8 },
    /// TCP: half of the reply, then the connection stays open and silent
    PartialHold { entry: usize, v6: bool, ms: u64, retries: usize },
    /// (the master answers `pages` pages without a terminator and is silent from then on)
    Master { v6: bool, ms: u64, pages: usize },
    /// GameSpy 2 server that answers with a stream of replies to ANOTHER request id (one every 100 ms, 30 of them) and then
    /// falls silent: whatever the client makes of them, the call is bounded by its timeouts, not by the stream
    Gs2Stray { v6: bool, ms: u64 },
    /// TCP peer that accepts and never reads, request far larger than the socket buffers (a 32 MiB host name in the Java
    /// handshake): the write step is bounded by the write timeout
    BigWrite { v6: bool, ms: u64 },
    Eco { v6: bool, ms: u64, hold: bool, variant: u8 },
    Echo { tcp: bool, v6: bool },
}

#[derive(Clone)]
struct Case {
    label: String,
    what: What,
}

fn build(tier: Tier) -> Vec<Case> {
    let mut v = Vec::new();
    let timeouts: &[u64] = if tier.is_thorough() { &[150, 400] } else { &[150] };
    let retries: &[usize] = if tier.is_thorough() { &[0, 1, 2] } else { &[0, 1] };
    for (ei, e) in entries().iter().enumerate() {
        for v6 in [false, true] {
            for ms in timeouts {
                for r in retries {
                    for k in 0 ..= e.replies {
                        v.push(Case {
                            label: format!("{} {} silent after {k} replies, timeout {ms} ms, retries {r}", e.name, if v6 { "::1" } else { "127.0.0.1" }),
                            what: What::Silence { entry: ei, k, v6, ms: *ms, retries: *r, variant: 0 },
                        });
                    }
                    // distinct timeouts: only the read timeout may bound a blocked receive
                    let variants: &[u8] = if tier.is_thorough() || e.tcp { &[1, 2] } else { &[1] };
                    for variant in variants {
                        for k in [0, e.replies / 2] {
                            if *r > 0 && !tier.is_thorough() {
                                continue;
                            }
                            v.push(Case {
                                label: format!(
                                    "{} {} silent after {k} replies, read timeout {ms} ms, write/connect {}, retries {r}",
                                    e.name,
                                    if v6 { "::1" } else { "127.0.0.1" },
                                    if *variant == 1 { "30 s" } else { "None" }
                                ),
                                what: What::Silence { entry: ei, k, v6, ms: *ms, retries: *r, variant: *variant },
                            });
                        }
                    }
                    // the same settings arriving through their serde form (a configuration file): same bounds
                    if *r == 0 && !v6 {
                        v.push(Case {
                            label: format!("{} 127.0.0.1 silent after 0 replies, read timeout {ms} ms, write/connect 30 s, settings deserialised from JSON", e.name),
                            what: What::Silence { entry: ei, k: 0, v6, ms: *ms, retries: 0, variant: 5 },
                        });
                    }
                    if e.tcp {
                        v.push(Case {
                            label: format!("{} {} half a reply then silence on an open connection, timeout {ms} ms, retries {r}", e.name, if v6 { "::1" } else { "127.0.0.1" }),
                            what: What::PartialHold { entry: ei, v6, ms: *ms, retries: *r },
                        });
                    }
                    v.push(Case {
                        label: format!("{} {} {}, timeout {ms} ms, retries {r}", e.name, if v6 { "::1" } else { "127.0.0.1" }, if e.tcp { "connection refused" } else { "port closed" }),
                        what: What::Special { entry: ei, kind: if e.tcp { 0 } else { 1 }, v6, ms: *ms, retries: *r },
                    });
                }
            }
        }
    }
    for v6 in [false, true] {
        for ms in timeouts {
            v.push(Case { label: format!("eco (http) {} accept-then-hold, timeout {ms} ms", if v6 { "::1" } else { "127.0.0.1" }), what: What::Eco { v6, ms: *ms, hold: true, variant: 0 } });
            v.push(Case { label: format!("eco (http) {} connection refused, timeout {ms} ms", if v6 { "::1" } else { "127.0.0.1" }), what: What::Eco { v6, ms: *ms, hold: false, variant: 0 } });
            // the HTTP client is configured separately from the sockets: the read timeout must hold whichever others are absent
            for variant in 1 ..= 4u8 {
                v.push(Case { label: format!("eco (http) {} accept-then-hold, read timeout {ms} ms, other timeouts variant {variant}", if v6 { "::1" } else { "127.0.0.1" }), what: What::Eco { v6, ms: *ms, hold: true, variant } });
            }
        }
        v.push(Case { label: format!("java (tcp) {} peer that never reads, 32 MiB handshake, timeouts 300 ms", if v6 { "::1" } else { "127.0.0.1" }), what: What::BigWrite { v6, ms: 300 } });
        v.push(Case { label: format!("gamespy2 {} server streaming replies to another request id, timeout 150 ms", if v6 { "::1" } else { "127.0.0.1" }), what: What::Gs2Stray { v6, ms: 150 } });
        for pages in [0usize, 1, 2] {
            v.push(Case { label: format!("master server {} silent after {pages} pages (built-in default timeout)", if v6 { "::1" } else { "127.0.0.1" }), what: What::Master { v6, ms: 4000, pages } });
        }
        for tcp in [false, true] {
            v.push(Case { label: format!("{} echo {}: payload sizes x receive sizes", if tcp { "tcp" } else { "udp" }, if v6 { "::1" } else { "127.0.0.1" }), what: What::Echo { tcp, v6 } });
        }
    }
    for (ei, e) in entries().iter().enumerate().filter(|(_, e)| e.tcp) {
        for v6 in [false, true] {
            for settings in 0 .. 3u8 {
                v.push(Case {
                    label: format!("{} {} peer that neither accepts nor refuses the connection, {}", e.name, if v6 { "::1" } else { "127.0.0.1" }, ["connect timeout 300 ms", "no settings given (default 4 s)", "Some(TimeoutSettings::default()) (4 s)"][settings as usize]),
                    what: What::ConnectHole { entry: ei, v6, settings },
                });
            }
        }
    }
    v
}

static QUICK: OnceLock<Vec<Case>> = OnceLock::new();
static THOROUGH: OnceLock<Vec<Case>> = OnceLock::new();
fn cases(tier: Tier) -> &'static Vec<Case> {
    match tier {
        Tier::Quick => QUICK.get_or_init(|| build(Tier::Quick)),
        Tier::Thorough => THOROUGH.get_or_init(|| build(Tier::Thorough)),
    }
}

fn ts(ms: u64, retries: usize) -> Option<TimeoutSettings> {
    TimeoutSettings::new(Some(Duration::from_millis(ms)), Some(Duration::from_millis(ms)), Some(Duration::from_millis(ms)), retries).ok()
}

/// Read timeout `ms`; write and connect timeouts far larger (variant 1), both absent (variant 2), only the write timeout
/// absent (3) or only the connect timeout absent (4), or variant 1's values deserialised from JSON (5): a blocking receive must be bounded by the READ timeout alone.
fn ts_variant(ms: u64, retries: usize, variant: u8) -> Option<TimeoutSettings> {
    let d = Some(Duration::from_millis(ms));
    match variant {
        0 => ts(ms, retries),
        1 => TimeoutSettings::new(d, Some(Duration::from_secs(30)), Some(Duration::from_secs(30)), retries).ok(),
        2 => TimeoutSettings::new(d, None, None, retries).ok(),
        3 => TimeoutSettings::new(d, None, d, retries).ok(),
        5 => {
            serde_json::from_value::<TimeoutSettings>(serde_json::json!({
                "read": {"secs": ms / 1000, "nanos": (ms % 1000) * 1_000_000},
                "write": {"secs": 30, "nanos": 0},
                "connect": {"secs": 30, "nanos": 0},
                "retries": retries,
            }))
            .ok()
        }
        _ => TimeoutSettings::new(d, d, None, retries).ok(),
    }
}

fn loop_ip(v6: bool) -> IpAddr { if v6 { IpAddr::V6(Ipv6Addr::LOCALHOST) } else { IpAddr::V4(Ipv4Addr::LOCALHOST) } }

pub struct C12;

impl Prop for C12 {
    fn id(&self) -> &'static str { "C12" }
    fn level(&self) -> &'static str { "fault_enumeration" }
    fn n_cases(&self, tier: Tier) -> usize { cases(tier).len() }
    fn case_label(&self, tier: Tier, idx: usize) -> String { cases(tier)[idx].label.clone() }
    fn shards(&self, _tier: Tier) -> usize { 12 }
    fn stall_secs(&self) -> u64 { 120 }
    fn exhaustive_when_uncapped(&self) -> bool { true }
    fn rule(&self) -> String {
        "full matrix on real loopback sockets: entry point {valve (challenge + 3 requests, split lists), gamespy1 query / query_vars (2 parts), gamespy2, gamespy3 (handshake + \
         data), unreal2 (trailing receives), quake3, bedrock, java (TCP), legacy 1.6 (TCP)} x silence point {before the first \
         reply, after each reply, never} + {TCP connection refused / UDP port closed} x {127.0.0.1, ::1} x read/write/connect \
         timeout {150 ms (quick); 150, 400 ms (thorough)} x retries {0, 1 (quick); 0, 1, 2}; plus the same settings deserialised from their JSON form; plus, for TCP, half a reply followed by silence on an open connection, and a peer that neither accepts nor refuses the connection (full accept queue) with a 300 ms connect timeout, with no settings at all and with the default settings (documented 4 s); eco over HTTP (accept-then-hold, \
         refused), a TCP peer that never reads against a 32 MiB request, a GameSpy 2 server streaming 30 replies to another request id, and the master server (silent from the start, after one page, after two pages). The loopback servers are driven by the same reference models. Oracle: a server silent before the exchange is complete means a PacketReceive error (reference; inside Unreal 2's lists the twin's outcome); the number of receive timeouts of the deterministic twin run is at most the reference count N; the \
         outcome class equals the outcome of the deterministic twin run under the virtual network with the same silence point \
         ; the call returns within N x timeout + 1.5 s, where N is read off the FAULT-FREE exchange (its natural timeouts + one that may end a greedy list + retries + 1 for the unit that meets the silence), not off the implementation's behaviour under the fault; over UDP the server must receive no more than (requests before the silence + retries x requests an attempt sends before its first receive) datagrams (hard watchdog at \
         4x: 'never times out'); every datagram the server received equals a request the twin run sent. Data path: UdpSocket / \
         TcpSocket echo for payload sizes {0..64, 1023, 1024, 1025, 1472, 1473, 2048, 6144, 65507} x receive sizes {payload-1, \
         payload, payload+1, default} x {v4, v6}. A timing failure is re-run three times serially before it is reported. \
         distinct_nontrivial = distinct (cell, outcome class) pairs"
            .into()
    }
    fn assumptions(&self) -> Vec<String> {
        vec![
            "scheduling noise on the otherwise idle machine is below 1.5 s per query (the only uncontrolled nondeterminism; a dropped timeout blocks forever and fails deterministically)".into(),
            "loopback interfaces 127.0.0.1 and ::1 are available".into(),
        ]
    }
    fn run_case(&self, tier: Tier, idx: usize, ctx: &mut Ctx) {
        let case = cases(tier)[idx].clone();
        ctx.counters.evaluations += 1;
        ctx.counters.states += 1;
        match case.what.clone() {
            What::Silence { entry, k, v6, ms, retries, variant } => {
                let e = entries()[entry].clone();
                let ip = loop_ip(v6);
                // deterministic twin
                let call = e.call.clone();
                let twin = run_query((server_for(e.family))(), Box::new(SilentAfter { k, delivered: 0 }), Chooser::new(&[]), || call(IP4, PORT, ts_variant(ms, retries, variant)));
                let twin_timeouts = twin.log.iter().filter(|x| matches!(x, WireEvent::Recv { data: None, .. })).count();
                let twin_class = match &twin.outcome {
                    Outcome::Ok(_) => "ok".to_string(),
                    Outcome::Err(kd, _) => format!("err:{kd:?}"),
                    other => other.class(),
                };
                let twin_sends: Vec<Vec<u8>> = twin.log.iter().filter_map(|x| if let WireEvent::Send { bytes, .. } = x { Some(bytes.clone()) } else { None }).collect();
                // Reference bounds that do NOT come from the implementation's retry behaviour: they are read off the
                // fault-free exchange. nat = receives that time out even when the server answers everything
                // (Unreal 2 ends its lists with one); a_u = requests an attempt of the silent unit sends before its
                // first receive; sends_before = requests sent before the receive that meets the silence.
                let call2 = e.call.clone();
                let free = run_query((server_for(e.family))(), Box::new(crate::vnet::Faithful), Chooser::new(&[]), || call2(IP4, PORT, ts(ms, retries)));
                let nat_total = free.log.iter().filter(|x| matches!(x, WireEvent::Recv { data: None, .. })).count();
                let total_replies = free.log.iter().filter(|x| matches!(x, WireEvent::Recv { data: Some(_), .. })).count();
                let fam10 = e.family;
                let (mut sends_before, mut got, mut a_u) = (0usize, 0usize, 1usize);
                {
                    let mut sends_in_attempt = 0usize;
                    let mut seen_recv_in_attempt = false;
                    for ev in &free.log {
                        match ev {
                            WireEvent::Send { bytes, .. } => {
                                if super::c10::starts_attempt(fam10, bytes) {
                                    sends_in_attempt = 0;
                                    seen_recv_in_attempt = false;
                                }
                                if !seen_recv_in_attempt {
                                    sends_in_attempt += 1;
                                }
                                sends_before += 1;
                            }
                            WireEvent::Recv { data: Some(_), .. } => {
                                if got == k {
                                    break;
                                }
                                got += 1;
                                seen_recv_in_attempt = true;
                            }
                            _ => {}
                        }
                        a_u = sends_in_attempt.max(1);
                    }
                }
                let silent_before_end = k < total_replies;
                // at most: the natural timeouts, one that ends a greedy list early, and r+1 for the unit that meets silence
                // (only Unreal 2 reads greedily until a timeout)
                let greedy = usize::from(e.family == Family::Unreal2);
                let n_timeouts = if silent_before_end { nat_total + greedy + retries + 1 } else { nat_total };
                let expected_requests = if silent_before_end { sends_before + retries * a_u } else { twin_sends.len() };
                // deterministic part of the bound: under the virtual network, with the same silence point, the query may not sit
                // through more receive timeouts than that (each one is a full read timeout on a real socket)
                if twin_timeouts > n_timeouts {
                    ctx.violation(
                        format!("blocking-receives-beyond-the-bound:{}", if e.tcp { "tcp" } else { "udp" }),
                        &[],
                        format!("{}: under the virtual network the query waits through {twin_timeouts} receive timeouts; the fault-free exchange, the silence point and {retries} retries account for {n_timeouts}", case.label),
                        format!("{twin_timeouts} receive timeouts"),
                        format!("at most {n_timeouts}"),
                        crate::vnet::render_log(&twin.log),
                    );
                    return;
                }
                let bound = Duration::from_millis(ms) * n_timeouts as u32 + SLACK;
                let mut last: Option<(String, String)> = None;
                for attempt in 0 .. 3 {
                    let server = if e.tcp { spawn_tcp(ip, server_for(e.family), k) } else { spawn_udp(ip, server_for(e.family), k) };
                    let Some(server) = server else {
                        ctx.violation("MACHINERY:loopback-unavailable", &[], format!("cannot bind {ip}"), "", "", vec![]);
                        return;
                    };
                    let call = e.call.clone();
                    let port = server.port;
                    let t = ts_variant(ms, retries, variant);
                    let r = with_watchdog(bound * 4 + Duration::from_secs(5), move || call(ip, port, t));
                    ctx.counters.transitions += 1;
                    let verdict: Option<(String, String)> = match r {
                        None => Some(("never-times-out".into(), format!("no return within {:?} ({} timeouts of {ms} ms expected)", bound * 4 + Duration::from_secs(5), n_timeouts))),
                        Some((res, elapsed)) => {
                            let got = class_of(&res);
                            let recvd = server.received.lock().unwrap().clone();
                            // a server that falls silent before the exchange is complete means a receive-class error; only
                            // Unreal 2's lists end with a silence by design (there the twin run's outcome is the reference)
                            let want_class = if silent_before_end && e.family != Family::Unreal2 { "err:PacketReceive".to_string() } else { twin_class.clone() };
                            if got != want_class {
                                Some((format!("error-class:{}", if v6 { "ipv6" } else { "ipv4" }), format!("outcome {got}; a server silent after {k} of {total_replies} replies means {want_class}")))
                            } else if elapsed > bound {
                                Some(("too-slow".into(), format!("took {elapsed:?}, bound {bound:?} = {n_timeouts} x {ms} ms + slack")))
                            } else if !e.tcp && e.family != Family::Unreal2 && silent_before_end && recvd.len() > expected_requests {
                                Some(("too-many-requests".into(), format!("the server received {} requests; {} requests before the silence + {retries} retries x {a_u} = {expected_requests} expected", recvd.len(), sends_before)))
                            } else if !e.tcp && recvd.iter().any(|d| !twin_sends.contains(d)) {
                                Some(("request-corrupted".into(), format!("server received a datagram the client did not send: {:?}", recvd.iter().find(|d| !twin_sends.contains(d)).map(|d| crate::vnet::hex(d)))))
                            } else {
                                None
                            }
                        }
                    };
                    drop(server);
                    match verdict {
                        None => {
                            last = None;
                            break;
                        }
                        Some((kind, d)) => {
                            // deterministic classes are not retried
                            let retry = kind == "too-slow";
                            last = Some((kind, d));
                            if !retry || attempt == 2 {
                                break;
                            }
                        }
                    }
                }
                ctx.distinct_key(&(case.label.clone(), last.clone()));
                match last {
                    None => ctx.sample(serde_json::json!({"case": case.label, "timeouts_expected": n_timeouts, "outcome": twin_class})),
                    Some((kind, d)) => ctx.violation(format!("real-socket:{kind}:{}", if e.tcp { "tcp" } else { "udp" }), &[], format!("{}: {d}", case.label), d.clone(), format!("outcome {twin_class} within {bound:?}"), vec![]),
                }
            }
            What::Special { entry, kind, v6, ms, retries } => {
                let e = entries()[entry].clone();
                let ip = loop_ip(v6);
                // a port with nothing behind it (outside the ephemeral range, see common::closed_port)
                let Some(port) = super::common::closed_port(ip, kind == 0) else { ctx.violation("MACHINERY:loopback-unavailable", &[], format!("no closed port on {ip}"), "", "", vec![]); return; };
                let call = e.call.clone();
                let t = ts(ms, retries);
                let bound = Duration::from_millis(ms) * (retries as u32 + 1) + SLACK;
                let r = with_watchdog(bound * 4 + Duration::from_secs(5), move || call(ip, port, t));
                ctx.counters.transitions += 1;
                let verdict = match r {
                    None => Some(("never-times-out".to_string(), "no return".to_string())),
                    Some((res, elapsed)) => {
                        let ok = match &res {
                            Err(err) if kind == 0 => err.kind == GDErrorKind::SocketConnect,
                            Err(err) => matches!(err.kind, GDErrorKind::PacketReceive | GDErrorKind::PacketSend),
                            Ok(_) => false,
                        };
                        if !ok {
                            Some((format!("error-class:{}", if v6 { "ipv6" } else { "ipv4" }), format!("outcome {}", class_of(&res))))
                        } else if elapsed > bound {
                            Some(("too-slow".to_string(), format!("took {elapsed:?}, bound {bound:?}")))
                        } else {
                            None
                        }
                    }
                };
                ctx.distinct_key(&(case.label.clone(), verdict.clone()));
                match verdict {
                    None => ctx.sample(serde_json::json!({"case": case.label})),
                    Some((k2, d)) => ctx.violation(format!("real-socket:{k2}:{}", if e.tcp { "tcp" } else { "udp" }), &[], format!("{}: {d}", case.label), d.clone(), if kind == 0 { "Err(SocketConnect)" } else { "a receive/send-class error" }, vec![]),
                }
            }
            What::ConnectHole { entry, v6, settings } => {
                let e = entries()[entry].clone();
                let Some(hole) = BlackHole::new(loop_ip(v6)) else { ctx.violation("MACHINERY:loopback-unavailable", &[], "the accept queue of a loopback listener could not be filled".to_string(), "", "", vec![]); return; };
                let (ip, port) = (hole.address.ip(), hole.address.port());
                let call = e.call.clone();
                // the reference bound is the documented default (4 s), never a value read from the code under test
                let (t, bound) = match settings {
                    0 => (ts(300, 0), Duration::from_millis(300) + SLACK),
                    1 => (None, Duration::from_secs(4) + SLACK),
                    _ => (Some(TimeoutSettings::default()), Duration::from_secs(4) + SLACK),
                };
                let r = with_watchdog(bound * 2 + Duration::from_secs(3), move || call(ip, port, t));
                drop(hole);
                ctx.counters.transitions += 1;
                let verdict = match r {
                    None => Some(("connect-never-times-out".to_string(), format!("no return within {:?}", bound * 2 + Duration::from_secs(3)))),
                    Some((res, elapsed)) => {
                        if !matches!(&res, Err(err) if err.kind == GDErrorKind::SocketConnect) {
                            Some((format!("error-class:{}", if v6 { "ipv6" } else { "ipv4" }), format!("outcome {}", class_of(&res))))
                        } else if elapsed > bound {
                            Some(("too-slow".to_string(), format!("took {elapsed:?}, bound {bound:?}")))
                        } else {
                            None
                        }
                    }
                };
                ctx.distinct_key(&(case.label.clone(), verdict.clone()));
                match verdict {
                    None => ctx.sample(serde_json::json!({"case": case.label})),
                    Some((k2, d)) => ctx.violation(format!("real-socket:{k2}:tcp-connect"), &[], format!("{}: {d}", case.label), d.clone(), "Err(SocketConnect) within the connect timeout", vec![]),
                }
            }
            What::PartialHold { entry, v6, ms, retries } => {
                let e = entries()[entry].clone();
                let ip = loop_ip(v6);
                let Some(server) = spawn_tcp_opts(ip, server_for(e.family), usize::MAX, true) else { return };
                let port = server.port;
                let call = e.call.clone();
                let t = ts(ms, retries);
                let bound = Duration::from_millis(ms) * (retries as u32 + 1) + SLACK;
                let r = with_watchdog(bound * 4 + Duration::from_secs(5), move || call(ip, port, t));
                ctx.counters.transitions += 1;
                let verdict = match r {
                    None => Some(("never-times-out".to_string(), "no return".to_string())),
                    Some((res, elapsed)) => {
                        if !matches!(&res, Err(err) if matches!(err.kind, GDErrorKind::PacketReceive | GDErrorKind::PacketSend)) {
                            Some((format!("error-class:{}", if v6 { "ipv6" } else { "ipv4" }), format!("outcome {}", class_of(&res))))
                        } else if elapsed > bound {
                            Some(("too-slow".to_string(), format!("took {elapsed:?}, bound {bound:?}")))
                        } else {
                            None
                        }
                    }
                };
                drop(server);
                ctx.distinct_key(&(case.label.clone(), verdict.clone()));
                match verdict {
                    None => ctx.sample(serde_json::json!({"case": case.label})),
                    Some((k2, d)) => ctx.violation(format!("real-socket:{k2}:tcp"), &[], format!("{}: {d}", case.label), d.clone(), "a receive-class error within (retries + 1) x timeout", vec![]),
                }
            }
            What::BigWrite { v6, ms } => {
                let ip = loop_ip(v6);
                let Ok(listener) = TcpListener::bind((ip, 0)) else { return };
                let port = listener.local_addr().unwrap().port();
                let stop = Arc::new(AtomicBool::new(false));
                let s2 = stop.clone();
                let h = std::thread::spawn(move || {
                    let _ = listener.set_nonblocking(true);
                    let mut held = Vec::new();
                    while !s2.load(Ordering::SeqCst) {
                        if let Ok((s, _)) = listener.accept() {
                            held.push(s); // accepted, never read
                        }
                        std::thread::sleep(Duration::from_millis(5));
                    }
                });
                // one write attempt and one read attempt, each bounded by its timeout
                let bound = Duration::from_millis(ms) * 2 + SLACK;
                let t = ts(ms, 0);
                let r = with_watchdog(bound * 4 + Duration::from_secs(5), move || {
                    let settings = gamedig::games::minecraft::RequestSettings { hostname: "h".repeat(32 << 20), protocol_version: -1 };
                    j(gamedig::games::minecraft::protocol::query_java(&SocketAddr::new(ip, port), t, Some(settings)))
                });
                stop.store(true, Ordering::SeqCst);
                let _ = h.join();
                ctx.counters.transitions += 1;
                let verdict = match r {
                    None => Some(("never-times-out".to_string(), "no return: the write of a request larger than the socket buffers is not bounded by the write timeout".to_string())),
                    Some((res, elapsed)) => {
                        if res.is_ok() {
                            Some(("silent-peer-answered".to_string(), "Ok(..) from a peer that never wrote".to_string()))
                        } else if elapsed > bound {
                            Some(("too-slow".to_string(), format!("took {elapsed:?}, bound {bound:?}")))
                        } else {
                            None
                        }
                    }
                };
                ctx.distinct_key(&(case.label.clone(), verdict.clone()));
                match verdict {
                    None => ctx.sample(serde_json::json!({"case": case.label})),
                    Some((k2, d)) => ctx.violation(format!("real-socket:{k2}:tcp"), &[], format!("{}: {d}", case.label), d.clone(), "an error within write timeout + read timeout (+ slack)", vec![]),
                }
            }
            What::Gs2Stray { v6, ms } => {
                let ip = loop_ip(v6);
                let Ok(sock) = StdUdp::bind((ip, 0)) else { return };
                let port = sock.local_addr().unwrap().port();
                let stop = Arc::new(AtomicBool::new(false));
                let s2 = stop.clone();
                let reply = {
                    use crate::vnet::Responder as _;
                    let mut d = crate::rsm::gamespy::Gs2Server { state: gs2_seed() }.on_datagram(&ConnInfo { id: 0, tcp: false, addr: SocketAddr::new(ip, port), sent: vec![], receives: 0, eof: false }, crate::rsm::gamespy::GS2_REQUEST).remove(0);
                    d[4] = 0x02;
                    d
                };
                let h = std::thread::spawn(move || {
                    let _ = sock.set_read_timeout(Some(Duration::from_millis(20)));
                    let mut buf = [0u8; 2048];
                    while !s2.load(Ordering::SeqCst) {
                        if let Ok((_, from)) = sock.recv_from(&mut buf) {
                            for _ in 0 .. 30 {
                                if s2.load(Ordering::SeqCst) {
                                    break;
                                }
                                let _ = sock.send_to(&reply, from);
                                std::thread::sleep(Duration::from_millis(100));
                            }
                        }
                    }
                });
                let bound = Duration::from_millis(ms) + SLACK;
                let t = ts(ms, 0);
                let r = with_watchdog(bound * 4, move || j(gamedig::protocols::gamespy::two::query(&SocketAddr::new(ip, port), t)));
                stop.store(true, Ordering::SeqCst);
                let _ = h.join();
                ctx.counters.transitions += 1;
                let verdict = match r {
                    None => Some(("never-times-out".to_string(), format!("no return within {:?}", bound * 4))),
                    Some((res, elapsed)) => {
                        if res.is_ok() {
                            Some(("stray-replies-accepted".to_string(), "Ok(..) although no reply to the request arrived".to_string()))
                        } else if elapsed > bound {
                            Some(("too-slow".to_string(), format!("took {elapsed:?}, bound {bound:?} (one attempt of {ms} ms + slack)")))
                        } else {
                            None
                        }
                    }
                };
                ctx.distinct_key(&(case.label.clone(), verdict.clone()));
                match verdict {
                    None => ctx.sample(serde_json::json!({"case": case.label})),
                    Some((k2, d)) => ctx.violation(format!("real-socket:{k2}:udp"), &[], format!("{}: {d}", case.label), d.clone(), "an error within one read timeout (+ slack)", vec![]),
                }
            }
            What::Master { v6, ms, pages } => {
                let ip = loop_ip(v6);
                let listing = || -> Box<dyn crate::vnet::Responder> {
                    use std::net::Ipv4Addr;
                    let page = |n: u8| -> Vec<crate::rsm::master::Entry> { (1 ..= 3u8).map(|i| (Ipv4Addr::new(198, 51, 100, n * 10 + i), 27015)).collect() };
                    Box::new(crate::rsm::master::MasterServer::new((1 ..= 6u8).map(page).collect()))
                };
                let Some(server) = spawn_udp(ip, Arc::new(listing), pages) else { return };
                let port = server.port;
                let bound = Duration::from_millis(ms) + SLACK;
                let r = with_watchdog(bound * 4, move || {
                    let mut m = gamedig::valve_master_server::ValveMasterServer::new(&SocketAddr::new(ip, port))?;
                    m.query(gamedig::valve_master_server::Region::Europe, None).map(|l| to_json(&l))
                });
                ctx.counters.transitions += 1;
                let verdict = match r {
                    None => Some(("never-times-out".to_string(), "no return".to_string())),
                    Some((res, elapsed)) => {
                        if !matches!(&res, Err(e) if matches!(e.kind, GDErrorKind::PacketReceive | GDErrorKind::PacketSend)) {
                            Some((format!("error-class:{}", if v6 { "ipv6" } else { "ipv4" }), format!("outcome {}", class_of(&res))))
                        } else if elapsed > bound {
                            Some(("too-slow".to_string(), format!("took {elapsed:?}")))
                        } else {
                            None
                        }
                    }
                };
                ctx.distinct_key(&(case.label.clone(), verdict.clone()));
                match verdict {
                    None => ctx.sample(serde_json::json!({"case": case.label})),
                    Some((k2, d)) => ctx.violation(format!("real-socket:{k2}:udp"), &[], format!("{}: {d}", case.label), d.clone(), "a receive-class error within the default timeout", vec![]),
                }
            }
            What::Eco { v6, ms, hold, variant } => {
                let ip = loop_ip(v6);
                let (port, _keep) = if hold {
                    let Some(s) = spawn_tcp(ip, Arc::new(|| Box::new(crate::vnet::Silent)), 0) else { return };
                    (s.port, Some(s))
                } else {
                    let Some(p) = super::common::closed_port(ip, true) else { return };
                    (p, None)
                };
                let t = ts_variant(ms, 0, variant);
                let bound = Duration::from_millis(ms) * 2 + SLACK;
                let r = with_watchdog(bound * 4 + Duration::from_secs(5), move || gamedig::games::eco::query_with_timeout(&ip, Some(port), &t).map(|r| to_json(&r)));
                ctx.counters.transitions += 1;
                let verdict = match r {
                    None => Some(("never-times-out".to_string(), "no return".to_string())),
                    Some((res, elapsed)) => {
                        let ok = matches!(&res, Err(e) if matches!(e.kind, GDErrorKind::PacketReceive | GDErrorKind::PacketSend | GDErrorKind::SocketConnect));
                        if !ok {
                            Some((format!("error-class:{}", if v6 { "ipv6" } else { "ipv4" }), format!("outcome {} ({})", class_of(&res), res.err().and_then(|e| e.source.map(|s| s.to_string())).unwrap_or_default())))
                        } else if elapsed > bound {
                            Some(("too-slow".to_string(), format!("took {elapsed:?}, bound {bound:?}")))
                        } else {
                            None
                        }
                    }
                };
                ctx.distinct_key(&(case.label.clone(), verdict.clone()));
                match verdict {
                    None => ctx.sample(serde_json::json!({"case": case.label})),
                    Some((k2, d)) => ctx.violation(format!("real-socket:{k2}:http"), &[], format!("{}: {d}", case.label), d.clone(), "a send/receive/connect-class error within the timeout", vec![]),
                }
            }
            What::Echo { tcp, v6 } => {
                let ip = loop_ip(v6);
                let mut sizes: Vec<usize> = (0 ..= 64).collect();
                sizes.extend([1023, 1024, 1025, 1472, 1473, 2048, 6144, 65_507]);
                let mut bad: Option<(String, String)> = None;
                let mut n = 0u64;
                for size in sizes {
                    let payload: Vec<u8> = (0 .. size).map(|i| (i * 31 + size) as u8).collect();
                    let recv_sizes: Vec<Option<usize>> = vec![Some(size.saturating_sub(1)), Some(size), Some(size + 1), None];
                    for rs in recv_sizes {
                        n += 1;
                        let t = ts(400, 0);
                        if tcp {
                            let Ok(l) = TcpListener::bind((ip, 0)) else { return };
                            let port = l.local_addr().unwrap().port();
                            let p2 = payload.clone();
                            let h = std::thread::spawn(move || {
                                let (mut s, _) = l.accept().ok()?;
                                s.set_read_timeout(Some(Duration::from_millis(300))).ok();
                                let mut got = Vec::new();
                                let mut buf = [0u8; 65_536];
                                while got.len() < p2.len() {
                                    match s.read(&mut buf) {
                                        Ok(0) | Err(_) => break,
                                        Ok(n) => got.extend_from_slice(&buf[.. n]),
                                    }
                                }
                                let _ = s.write_all(&got);
                                Some(got)
                            });
                            let r = (|| -> GDResult<Vec<u8>> {
                                let mut s = TcpSocket::new(&SocketAddr::new(ip, port), &t)?;
                                if !payload.is_empty() {
                                    s.send(&payload)?;
                                }
                                s.receive(rs)
                            })();
                            let server_got = h.join().ok().flatten();
                            // TCP delivers the whole stream regardless of the size hint; a single write must hand over everything up to the socket buffer
                            if size <= 6144 {
                                if server_got.as_deref() != Some(&payload[..]) {
                                    bad = Some(("bytes-not-delivered:tcp".into(), format!("payload of {size} bytes: peer received {:?} bytes", server_got.map(|g| g.len()))));
                                } else if !matches!(&r, Ok(d) if *d == payload) {
                                    bad = Some(("bytes-not-returned:tcp".into(), format!("payload of {size} bytes, receive size {rs:?}: got {:?}", r.as_ref().map(|d| d.len()).map_err(|e| e.kind.clone()))));
                                }
                            }
                        } else {
                            let Ok(sock) = StdUdp::bind((ip, 0)) else { return };
                            sock.set_read_timeout(Some(Duration::from_millis(300))).ok();
                            let port = sock.local_addr().unwrap().port();
                            let h = std::thread::spawn(move || {
                                let mut buf = vec![0u8; 70_000];
                                let (n, from) = sock.recv_from(&mut buf).ok()?;
                                let _ = sock.send_to(&buf[.. n], from);
                                Some(buf[.. n].to_vec())
                            });
                            let r = (|| -> GDResult<Vec<u8>> {
                                let mut s = UdpSocket::new(&SocketAddr::new(ip, port), &t)?;
                                s.send(&payload)?;
                                s.receive(rs)
                            })();
                            let server_got = h.join().ok().flatten();
                            let lim = rs.unwrap_or(1024);
                            let want = payload[.. payload.len().min(lim)].to_vec();
                            if server_got.as_deref() != Some(&payload[..]) {
                                bad = Some((format!("bytes-not-delivered:udp:{}", if v6 { "ipv6" } else { "ipv4" }), format!("payload of {size} bytes: peer received {:?}; client result {:?}", server_got.map(|g| g.len()), r.as_ref().map(|d| d.len()).map_err(|e| e.kind.clone()))));
                            } else if !matches!(&r, Ok(d) if *d == want) {
                                bad = Some(("bytes-not-returned:udp".into(), format!("payload of {size} bytes, receive size {rs:?}: got {:?}, expected the first {} bytes", r.as_ref().map(|d| d.len()).map_err(|e| e.kind.clone()), want.len())));
                            }
                        }
                        if bad.is_some() {
                            break;
                        }
                    }
                    if bad.is_some() {
                        break;
                    }
                }
                ctx.counters.transitions += n;
                ctx.counters.evaluations += n;
                ctx.distinct_key(&(case.label.clone(), bad.clone()));
                ctx.distinct_key(&(case.label.clone(), n));
                match bad {
                    None => ctx.sample(serde_json::json!({"case": case.label, "round_trips": n})),
                    Some((k2, d)) => ctx.violation(format!("real-socket:{k2}"), &[], d.clone(), d.clone(), "bytes delivered unmodified; received datagram returned up to the requested size", vec![]),
                }
            }
        }
    }
}
