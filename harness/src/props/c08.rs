//! C08 — multi-datagram responses do not depend on arrival order.

use super::c02::EngineCfg;
use super::common::*;
use crate::explore::{explore, ExploreCfg};
use crate::prop::Prop;
use crate::report::{Ctx, Tier};
use crate::rsm::gamespy::*;
use crate::rsm::unreal2::*;
use crate::rsm::valve as rv;
use crate::run::{run_query, Outcome};
use crate::targets::*;
use crate::vnet::{render_log, Chooser, Pick, Policy, RecvPoint, Responder};
use gamedig::protocols::types::GatherToggle;
use gamedig::protocols::{gamespy, unreal2, valve};
use gamedig::GDResult;
use serde_json::Value;
use std::sync::{Arc, OnceLock};

/// Any datagram still in flight may arrive next; optionally one fragment may
/// be delivered twice.
pub struct Reorder {
    pub allow_reorder: bool,
    pub allow_dup: bool,
    pub dup_used: bool,
    /// which datagrams are fragments of the multi-datagram response under test (only those are duplicated)
    pub is_fragment: fn(&[u8]) -> bool,
}

pub fn fragment_predicate(family: &str, label: &str) -> fn(&[u8]) -> bool {
    match family {
        "valve-source-split" | "valve-goldsrc-split" => |d| d.first() == Some(&0xFE),
        "gamespy3-splitnum" => |d| d.first() == Some(&0x00),
        "unreal2-lists" if label.contains("rules in") => |d| d.get(4) == Some(&1),
        "unreal2-lists" => |d| d.get(4) == Some(&2),
        _ => |_| true,
    }
}

impl Policy for Reorder {
    fn recv_menu(&mut self, pt: &RecvPoint) -> usize {
        let q = pt.queue.len();
        if q == 0 {
            return 1;
        }
        let base = if self.allow_reorder { q } else { 1 };
        let frags = pt.queue.iter().all(|d| (self.is_fragment)(d));
        base + if self.allow_dup && !self.dup_used && frags { q } else { 0 }
    }
    fn recv_pick(&mut self, pt: &RecvPoint, idx: usize) -> Pick {
        let q = pt.queue.len();
        if q == 0 {
            return Pick::Head;
        }
        let base = if self.allow_reorder { q } else { 1 };
        if idx < base {
            Pick::Nth(idx)
        } else {
            self.dup_used = true;
            Pick::Dup(idx - base)
        }
    }
}

#[derive(Clone)]
struct Case {
    label: String,
    family: &'static str,
    server: ServerFn,
    call: Arc<dyn Fn() -> GDResult<Value> + Send + Sync>,
    reorder: bool,
    dup: bool,
}

fn j<T: serde::Serialize>(r: GDResult<T>) -> GDResult<Value> { r.map(|t| to_json(&t)) }

fn valve_case(e: EngineCfg, which: usize, cuts: Vec<usize>, reorder: bool, dup: bool, tag: &str, compressed: bool) -> Case {
    let engine = e.engine();
    let k = cuts.len() + 1;
    let cuts2 = cuts.clone();
    Case {
        label: format!(
            "valve {e:?} {}{} in {k} fragments ({tag}) cuts={cuts:?}{}{}",
            ["info", "players", "rules"][which],
            if compressed { " (bzip2)" } else { "" },
            if reorder { " all orders" } else { " in order" },
            if dup { " + one duplicate" } else { "" }
        ),
        family: if e.gold() { "valve-goldsrc-split" } else { "valve-source-split" },
        server: Arc::new(move || {
            let mut s = valve_seed(e);
            // six rules / four players so that there is something to cut
            for i in 2 .. 6 {
                s.rules.push((format!("rule_{i}"), format!("value {i}")));
            }
            for i in 2 .. 4 {
                s.players.push(rv::Player {
                    index: i,
                    name: format!("player{i}"),
                    score: i as i32,
                    duration: i as f32,
                    ship: None,
                });
            }
            let mut t = rv::Transport {
                obsolete_info: e == EngineCfg::GoldObsolete,
                ..Default::default()
            };
            let fr = if e.gold() {
                rv::Framing::Gold {
                    cuts: cuts2.clone(),
                    id: 0x31,
                }
            } else {
                rv::Framing::Source {
                    cuts: cuts2.clone(),
                    compressed,
                    size_field: true, exact_size: false,
                    id: 0x31,
                }
            };
            match which {
                0 => t.info = fr,
                1 => t.players = fr,
                _ => t.rules = fr,
            }
            Box::new(rv::ValveServer::new(s, t))
        }),
        call: Arc::new(move || {
            let gs = valve::GatheringSettings {
                players: GatherToggle::Enforce,
                rules: GatherToggle::Enforce,
                check_app_id: false,
            };
            j(valve::query(&addr(), engine, Some(gs), None))
        }),
        reorder,
        dup,
    }
}

/// Length of the payload the seed server (as modified above) sends for a section.
fn valve_len(e: EngineCfg, which: usize) -> usize {
    let mut s = valve_seed(e);
    for i in 2 .. 6 {
        s.rules.push((format!("rule_{i}"), format!("value {i}")));
    }
    for i in 2 .. 4 {
        s.players.push(rv::Player {
            index: i,
            name: format!("player{i}"),
            score: i as i32,
            duration: i as f32,
            ship: None,
        });
    }
    match which {
        0 => rv::info_body(&s.info, e == EngineCfg::GoldObsolete).len(),
        1 => rv::players_body(&s.players).len(),
        _ => rv::rules_body(&s.rules).len(),
    }
}

fn build(tier: Tier) -> Vec<Case> {
    let thorough = tier.is_thorough();
    let mut v = Vec::new();
    let kmax = 6usize;
    // ---- Valve
    for e in [EngineCfg::App440, EngineCfg::GoldFalse] {
        for which in 0 .. 3 {
            let len = valve_len(e, which);
            // k = 2 at every boundary
            let step = if thorough { 1 } else { 4 };
            let mut at = 1;
            while at < len {
                v.push(valve_case(e, which, vec![at], true, true, "every boundary", false));
                at += step;
            }
            for k in 3 ..= kmax {
                let even = crate::rsm::even_cuts(len, k);
                let variants: Vec<Vec<usize>> = if thorough {
                    vec![
                        even.clone(),
                        even.iter().map(|c| c + 1).collect(),
                        even.iter().map(|c| c - 1).collect(),
                    ]
                } else {
                    vec![even.clone()]
                };
                for cuts in variants {
                    // all k! orders (exhaustive also at k = 6); duplicates on every order for k <= 4, on the in-order delivery above
                    v.push(valve_case(e, which, cuts.clone(), true, k <= 4, "field edges", false));
                    if k > 4 {
                        v.push(valve_case(e, which, cuts, false, true, "field edges", false));
                    }
                }
            }
        }
    }
    // ---- Valve, bzip2-compressed split replies (the size and checksum travel in fragment 0 only)
    for which in 1 .. 3 {
        let len = valve_len(EngineCfg::App440, which);
        for k in 2 ..= if thorough { 5 } else { 4 } {
            v.push(valve_case(EngineCfg::App440, which, crate::rsm::even_cuts(len, k), true, true, "even", true));
        }
    }
    // ---- GameSpy 1
    {
        let s = gs1_seed_big();
        let n = s.pairs().len();
        let mut add = |cuts: Vec<usize>, reorder: bool, dup: bool| {
            for vars in [false, true] {
                let st = s.clone();
                let c2 = cuts.clone();
                v.push(Case {
                    label: format!(
                        "gamespy1{} {} parts cuts={cuts:?}{}{}",
                        if vars { " query_vars" } else { "" },
                        cuts.len() + 1,
                        if reorder { " all orders" } else { " in order" },
                        if dup { " + one duplicate" } else { "" }
                    ),
                    family: "gamespy1-parts",
                    server: Arc::new(move || {
                        Box::new(Gs1Server {
                            state: st.clone(),
                            cut_at: c2.clone(),
                        })
                    }),
                    call: if vars { Arc::new(|| j(gamespy::one::query_vars(&addr(), None))) } else { Arc::new(|| j(gamespy::one::query(&addr(), None))) },
                    reorder,
                    dup,
                });
            }
        };
        let step = if thorough { 1 } else { 3 };
        let mut at = 1;
        while at < n {
            add(vec![at], true, true);
            at += step;
        }
        for k in 3 ..= kmax {
            let even: Vec<usize> = (1 .. k).map(|i| n * i / k).collect();
            add(even.clone(), true, k <= 4);
            if k > 4 {
                add(even, false, true);
            }
        }
    }
    // ---- GameSpy 3
    {
        let s = gs3_seed_big();
        let first = s.first_data_atom();
        let n = s.n_atoms();
        let mut add = |cuts: Vec<usize>, reorder: bool, dup: bool| {
            // (both entry points: the full query and the raw-variables query reassemble the same packets)
            for vars in [false, true] {
                let st = s.clone();
                let c2 = cuts.clone();
                v.push(Case {
                    label: format!(
                        "gamespy3{} {} packets cuts={cuts:?}{}{}",
                        if vars { " query_vars" } else { "" },
                        cuts.len() + 1,
                        if reorder { " all orders" } else { " in order" },
                        if dup { " + one duplicate" } else { "" }
                    ),
                    family: "gamespy3-splitnum",
                    server: Arc::new(move || Box::new(Gs3Server::new(st.clone(), c2.clone()))),
                    call: if vars { Arc::new(|| j(gamespy::three::query_vars(&addr(), None))) } else { Arc::new(|| j(gamespy::three::query(&addr(), None))) },
                    reorder,
                    dup,
                });
            }
        };
        let step = if thorough { 1 } else { 3 };
        let mut at = first;
        while at < n {
            add(vec![at], true, true);
            at += step;
        }
        for k in 3 ..= kmax {
            let even: Vec<usize> = (1 .. k).map(|i| first + (n - first) * i / k).collect();
            add(even.clone(), true, k <= 4);
            if k > 4 {
                add(even, false, true);
            }
        }
    }
    // ---- Unreal 2 (rules list and players list)
    for which in 0 .. 2 {
        // (k, long datagrams, twins: two players equal in every field, one closing a datagram and one opening a later,
        // non-neighbouring one - some arrival orders make them neighbours)
        for (k, long, twins) in (2 ..= kmax).map(|k| (k, false, false)).chain([(2usize, true, false), (3, true, false), (3, false, true), (4, false, true)]) {
            if twins && which == 0 {
                continue;
            }
            for (reorder, dup) in if k <= 4 { vec![(true, true)] } else { vec![(true, false), (false, true)] } {
                v.push(Case {
                    label: format!(
                        "unreal2 {} in {k} datagrams{}{}{}{}",
                        ["rules", "players"][which],
                        if long { " of 500-1000 bytes each" } else { "" },
                        if twins { " with two equal entries in different datagrams" } else { "" },
                        if reorder { " all orders" } else { " in order" },
                        if dup { " + one duplicate" } else { "" }
                    ),
                    family: "unreal2-lists",
                    server: Arc::new(move || {
                        let mut st = gen_u2(&mut Chooser::new(&[]), &[12], &[12]);
                        st.num_players = 12;
                        if which == 0 && !long {
                            // (one key the library interprets itself, in the first and in the last datagram, with different values)
                            st.rules.insert(0, (UStr::plain("GamePassword"), UStr::plain("True")));
                            st.rules.push((UStr::plain("GamePassword"), UStr::plain("False")));
                        }
                        if twins {
                            let per = st.players.len() / k;
                            st.players[2 * per] = st.players[per - 1].clone();
                        }
                        if long {
                            // (values and names near the format's 127-character limit: whichever datagram arrives first is long)
                            // (only in the list under test: the other one goes out in a single datagram of at most 1024 bytes)
                            if which == 0 {
                                for (i, r) in st.rules.iter_mut().enumerate() {
                                    r.1 = UStr::plain(&format!("{}{i}", "v".repeat(120)));
                                }
                            } else {
                                for (i, p) in st.players.iter_mut().enumerate() {
                                    p.name = UStr::plain(&format!("{}{i}", "n".repeat(120)));
                                }
                            }
                        }
                        Box::new(U2Server {
                            state: st,
                            rule_packets: if which == 0 { k } else { 1 },
                            player_packets: if which == 1 { k } else { 1 },
                        })
                    }),
                    call: Arc::new(|| {
                        let gs = unreal2::GatheringSettings {
                            players: GatherToggle::Enforce,
                            mutators_and_rules: GatherToggle::Enforce,
                        };
                        j(unreal2::query(&addr(), &gs, None))
                    }),
                    reorder,
                    dup,
                });
            }
        }
    }
    v
}

fn gs1_seed_big() -> Gs1State { gen_gs1(&mut Chooser::new(&[]), &[4]) }
fn gs3_seed_big() -> Gs3State { gen_gs3(&mut Chooser::new(&[]), &[4], &[2]) }

static QUICK: OnceLock<Vec<Case>> = OnceLock::new();
static THOROUGH: OnceLock<Vec<Case>> = OnceLock::new();
fn cases(tier: Tier) -> &'static Vec<Case> {
    match tier {
        Tier::Quick => QUICK.get_or_init(|| build(Tier::Quick)),
        Tier::Thorough => THOROUGH.get_or_init(|| build(Tier::Thorough)),
    }
}

/// Sort the lists whose order has no sequence number on the wire (Unreal 2).
fn sort_lists(v: &Value) -> Value {
    match v {
        Value::Array(a) => {
            let mut items: Vec<Value> = a.iter().map(sort_lists).collect();
            items.sort_by_key(|x| x.to_string());
            Value::Array(items)
        }
        Value::Object(m) => Value::Object(m.iter().map(|(k, x)| (k.clone(), sort_lists(x))).collect()),
        other => other.clone(),
    }
}

pub struct C08;

impl Prop for C08 {
    fn id(&self) -> &'static str { "C08" }
    fn n_cases(&self, tier: Tier) -> usize { cases(tier).len() }
    fn case_label(&self, tier: Tier, idx: usize) -> String { cases(tier)[idx].label.clone() }
    fn rule(&self) -> String {
        "both GameSpy entry points (query, query_vars); Unreal 2 lists also with datagrams of 500-1000 bytes and with two equal entries in different datagrams, and with GamePassword named in the first and in the last datagram with different values. case = (format: Valve Source split / GoldSrc split of info, players or rules; GameSpy 1 parts; GameSpy 3 splitnum \
         packets; Unreal 2 rules / players lists) x fragment boundaries (k = 2 at every boundary, k = 3..6 at even field edges, \
         thorough also +-1). The virtual network holds the set of in-flight datagrams; at every receive any of them may arrive \
         next: ALL k! delivery orders are enumerated for k = 2..6 (no sampling), and on top of every order for k <= 4 (and of the \
         in-order delivery for k = 5, 6) every single-fragment duplication at every position. An execution with more than 24 deliveries in one query (7 are possible) is a violation and is not expanded; cap 50000 executions per case (a few thousand are needed), reported if hit. Oracle (differential): every \
         order yields exactly the in-order result; with a duplicate the result is an error or the in-order result. \
         distinct_nontrivial = distinct (outcome class, wire-log shape) pairs"
            .into()
    }
    fn assumptions(&self) -> Vec<String> {
        vec![
            "the in-order result itself is pinned to the reference model by C02 / C04 / C06".into(),
            "no loss: every fragment is delivered if the client keeps reading".into(),
        ]
    }
    fn run_case(&self, tier: Tier, idx: usize, ctx: &mut Ctx) {
        let case = cases(tier)[idx].clone();
        // baseline: in-order delivery
        let base = run_query(
            (case.server)(),
            Box::new(crate::vnet::Faithful),
            Chooser::new(&[]),
            || (case.call)(),
        );
        let baseline = match &base.outcome {
            Outcome::Ok(v) => v.clone(),
            other => {
                // the in-order delivery itself fails: nothing to compare against (reported by the decode checks)
                ctx.note("baseline_not_ok", 1);
                ctx.violation(
                    format!("in-order-delivery-fails:{}:{}", case.family, other.class()),
                    &[],
                    "in-order delivery of the fragments does not yield a response",
                    other.describe_json(),
                    "Ok(..)",
                    render_log(&base.log),
                );
                return;
            }
        };
        // a correct client takes in each datagram once: at most k! orders times the duplications, a few thousand executions
        // per case. A client that answers a datagram with new requests makes the set in flight grow without end; the cap
        // (reported in the evidence when hit) and the per-execution bound below make the check end on such code
        explore(
            ctx,
            &ExploreCfg { bound: usize::MAX, max_execs: 50_000 },
            |prefix| {
                let ch = Chooser::new(prefix);
                let policy = Reorder {
                    allow_reorder: case.reorder,
                    allow_dup: case.dup,
                    dup_used: false,
                    is_fragment: fragment_predicate(case.family, &case.label),
                };
                let x = run_query((case.server)(), Box::new(policy), ch, || (case.call)());
                // did this execution deliver a duplicate? (a Dup pick is an index >= number in flight; recompute from the log)
                let mut seen: Vec<&Vec<u8>> = Vec::new();
                let mut dup = false;
                for e in &x.log {
                    if let crate::vnet::WireEvent::Recv { data: Some(d), .. } = e {
                        if seen.contains(&d) {
                            dup = true;
                        }
                        seen.push(d);
                    }
                }
                (x, dup)
            },
            |ctx, x, dup| {
                // a correct client meets at most k (+1 duplicate) deliveries in one query; one that answers deliveries with
                // new requests keeps the set in flight growing: reported on the execution that shows it, subtree not expanded
                if x.choices().len() > 24 {
                    ctx.violation(
                        format!("arrival-orders-without-end:{}", case.family),
                        &x.choices(),
                        format!("{}: {} deliveries in one query (at most 7 are possible when every datagram is taken in once)", case.label, x.choices().len()),
                        x.outcome.describe_json(),
                        "at most as many deliveries as datagrams sent by the server, plus one duplicate",
                        render_log(&x.log),
                    );
                    ctx.prune_children = true;
                    return;
                }
                match &x.outcome {
                    Outcome::Ok(v) if *v == baseline => {
                        if !x.choices().iter().all(|c| *c == 0) {
                            ctx.sample(serde_json::json!({"case": case.label, "delivery_choices": x.choices(), "same_as_in_order": true}));
                        }
                    }
                    Outcome::Ok(v) => {
                        let only_order = sort_lists(v) == sort_lists(&baseline);
                        let path = first_diff(&baseline, v).unwrap_or_default();
                        // entries merely listed twice (and nothing lost or altered)?
                        fn dedup_lists(v: &Value) -> Value {
                            match v {
                                Value::Array(a) => {
                                    let mut items: Vec<Value> = a.iter().map(dedup_lists).collect();
                                    items.sort_by_key(|x| x.to_string());
                                    items.dedup();
                                    Value::Array(items)
                                }
                                Value::Object(m) => Value::Object(m.iter().map(|(k, x)| (k.clone(), dedup_lists(x))).collect()),
                                other => other.clone(),
                            }
                        }
                        let only_repeats = *dup && dedup_lists(v) == dedup_lists(&baseline);
                        let class = if only_order {
                            format!("arrival-order-changes-list-order:{}", case.family)
                        } else if only_repeats {
                            format!("duplicate-fragment-repeats-list-entries:{}", case.family)
                        } else if *dup {
                            format!("duplicate-fragment-changes-response:{}", case.family)
                        } else {
                            format!("arrival-order-changes-response:{}", case.family)
                        };
                        ctx.violation(
                            class,
                            &x.choices(),
                            format!("a successful response differs from the in-order one at {path}"),
                            clip(&v.to_string(), 1500),
                            clip(&baseline.to_string(), 1500),
                            render_log(&x.log),
                        );
                    }
                    Outcome::Err(k, s) => {
                        if !*dup {
                            ctx.violation(
                                format!("arrival-order-causes-error:{}", case.family),
                                &x.choices(),
                                "a permuted delivery of the same fragments fails although in-order delivery succeeds",
                                format!("Err({k:?}: {s})"),
                                clip(&baseline.to_string(), 1500),
                                render_log(&x.log),
                            );
                        }
                    }
                    other => {
                        ctx.violation(
                            format!("arrival-order-crash:{}", case.family),
                            &x.choices(),
                            "a permuted / duplicated delivery crashes the query",
                            other.describe_json(),
                            "Ok or Err",
                            render_log(&x.log),
                        );
                    }
                }
            },
        );
    }
}

fn addr() -> std::net::SocketAddr { super::common::addr() }

#[allow(dead_code)]
fn _unused(_: Box<dyn Responder>) {}
