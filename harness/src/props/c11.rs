//! C11 — gather toggles and the app-id check behave as documented.

use super::c10::GARBAGE;
use super::common::*;
use crate::prop::Prop;
use crate::report::{Ctx, Tier};
use crate::rsm::unreal2 as ru;
use crate::rsm::valve as rv;
use crate::run::{run_query, Outcome};
use crate::targets::*;
use crate::vnet::{render_log, Chooser, Pick, Policy, RecvPoint, SendPoint, WireEvent};
use gamedig::protocols::types::GatherToggle;
use gamedig::protocols::{unreal2, valve};
use gamedig::GDErrorKind;

#[derive(Clone, Copy, Debug, PartialEq, Eq)]
enum Sec {
    Valid,
    Silent,
    /// unrelated garbage (AB CD)
    Malformed,
    /// Valve: the server issues a challenge and then stays silent; Unreal 2: the request cannot be sent
    ChallengeThenSilent,
    /// Valve: the real reply cut after the first count byte (the announced count runs past the end); Unreal 2: the reply
    /// cut inside its header
    Overrun,
    /// Valve: the real reply as a bzip2-compressed split packet whose checksum does not match; Unreal 2: an undefined reply kind
    BadEnvelope,
    /// Valve: the first name / rule key is not valid UTF-8; Unreal 2: the real reply cut down to one byte
    BadText,
    /// Unreal 2: the list is answered in two datagrams and the SECOND one has a valid header and an undecodable body
    /// (Valve: as Malformed)
    LaterDatagramBad,
}
const SECS: [Sec; 8] = [Sec::Valid, Sec::Silent, Sec::Malformed, Sec::ChallengeThenSilent, Sec::Overrun, Sec::BadEnvelope, Sec::BadText, Sec::LaterDatagramBad];

impl Sec {
    /// a reply arrives but the format rejects it
    fn malformed(self) -> bool { matches!(self, Sec::Malformed | Sec::Overrun | Sec::BadEnvelope | Sec::BadText | Sec::LaterDatagramBad) }
    fn datagram(self, valve: bool, head: &[u8]) -> Vec<u8> {
        match (self, valve) {
            // (both clients are lenient about lists that stop early inside the body - rules replies are often cut by
            // servers - so the cut is made where the format leaves no room for leniency)
            (Sec::Overrun, true) => head[.. head.len().min(6)].to_vec(),
            (Sec::Overrun, false) => head[.. head.len().min(4)].to_vec(),
            (Sec::BadEnvelope, true) => {
                let mut parts = rv::frame(head, &rv::Framing::Source { cuts: vec![], compressed: true, size_field: true, exact_size: false, id: 0x77 });
                let mut d = parts.remove(0);
                // FE FF FF FF, id (4), total, number, size (2), decompressed size (4), crc32 (4)
                if d.len() > 19 {
                    d[16] ^= 0xff;
                }
                d
            }
            (Sec::BadEnvelope, false) => {
                let mut d = head.to_vec();
                if d.len() > 4 {
                    d[4] = 0x7f;
                }
                d
            }
            (Sec::BadText, true) => {
                let mut d = head.to_vec();
                if d.len() > 8 {
                    d[7] = 0xff;
                }
                d
            }
            (Sec::BadText, false) => head[.. 1].to_vec(),
            // 80 00 00 00 <kind> + a UCS-2 string announcing 5 characters with two bytes behind it
            (Sec::LaterDatagramBad, false) => {
                let mut d = head[.. head.len().min(5)].to_vec();
                d.extend_from_slice(&[0x85, 0x41, 0x42]);
                d
            }
            _ => GARBAGE.to_vec(),
        }
    }
}

/// Fixed (not explored) per-section behaviour.
struct Sections {
    valve: bool,
    outcome: [Sec; 3],
    cur: usize,
    recvs_in_unit: usize,
    /// Valve: the receive (within a section) at which a challenge-then-silent section falls silent = number of challenges
    /// the server issues per request
    cts_at: usize,
}

impl Sections {
    /// index, within a section, of the receive that carries the answer: after the challenges of the heavier schedule
    fn answer_at(&self) -> usize { if self.valve && self.cts_at > 1 { self.cts_at } else { 0 } }
}

impl Policy for Sections {
    fn send_menu(&mut self, pt: &SendPoint) -> usize {
        let u = match pt.data.get(4) {
            Some(0x55) if self.valve => 1,
            Some(0x56) if self.valve => 2,
            Some(1) if !self.valve => 1,
            Some(2) if !self.valve => 2,
            _ => 0,
        };
        if u != self.cur {
            self.cur = u;
            self.recvs_in_unit = 0;
        }
        1
    }
    fn recv_menu(&mut self, _pt: &RecvPoint) -> usize { 1 }
    fn recv_pick(&mut self, pt: &RecvPoint, _idx: usize) -> Pick {
        let n = self.recvs_in_unit;
        self.recvs_in_unit += 1;
        if pt.queue.is_empty() {
            return Pick::Head;
        }
        match self.outcome[self.cur] {
            Sec::Valid => Pick::Head,
            Sec::Silent if n == 0 => Pick::Timeout { drop_all: true },
            // (the answer is what gets replaced, not a challenge that precedes it)
            Sec::LaterDatagramBad if !self.valve => if n == 1 { Pick::Custom { data: Sec::LaterDatagramBad.datagram(false, &pt.queue[0]), consume: true } } else { Pick::Head },
            m if m.malformed() && n == self.answer_at() => Pick::Custom { data: m.datagram(self.valve, &pt.queue[0]), consume: true },
            Sec::ChallengeThenSilent if self.valve && n == self.cts_at => Pick::Timeout { drop_all: true },
            Sec::ChallengeThenSilent if !self.valve && n == 0 => Pick::Timeout { drop_all: true },
            _ => Pick::Head,
        }
    }
}

#[derive(Clone, Debug)]
enum What {
    /// relation 0 main, 1 dedicated, 2 other, 3 no expectation, 4 main id above 32767 carried in the 16-bit field only
    Valve { players: GatherToggle, rules: GatherToggle, relation: u8, check: bool },
    Unreal2 { players: GatherToggle, rules: GatherToggle },
    /// every per-game module of a Valve game whose definition expects an app id (the modules' documented defaults: check
    /// on unless the definition says otherwise): a server of that game, and a server of another game
    ModuleAppIds,
}

fn cases() -> Vec<(String, What)> {
    let mut v = Vec::new();
    for p in TOGGLES {
        for r in TOGGLES {
            for relation in 0 .. 5u8 {
                for check in [true, false] {
                    v.push((
                        format!("valve players={p:?} rules={r:?} appid={} check_app_id={check}", ["main", "dedicated", "other", "no expectation", "main (40000, 16-bit field only, no game id)"][relation as usize]),
                        What::Valve { players: p, rules: r, relation, check },
                    ));
                }
            }
            v.push((format!("unreal2 players={p:?} rules={r:?}"), What::Unreal2 { players: p, rules: r }));
        }
    }
    v.push(("valve game modules (default settings): a server of the game and a server of another game".to_string(), What::ModuleAppIds));
    v
}

fn run_module_app_ids(ctx: &mut Ctx, label: &str) {
    use gamedig::protocols::types::Protocol;
    use gamedig::protocols::valve::Engine;
    use std::sync::Arc;
    let mut modules: Vec<(String, Arc<dyn Fn() -> gamedig::GDResult<serde_json::Value>>)> = Vec::new();
    for (name, fam, f) in WRAPPERS {
        if *fam == "valve" {
            let f = *f;
            modules.push((name.to_string(), Arc::new(move || f(&IP4, Some(PORT)))));
        }
    }
    modules.push(("theship".to_string(), Arc::new(|| gamedig::games::theship::query(&IP4, Some(PORT)).map(|r| to_json(&r)))));
    let mut n = 0u64;
    for (name, f) in modules {
        let Some(game) = gamedig::GAMES.get(name.as_str()) else { continue };
        // The Ship has a protocol entry of its own in the definitions table; its app id (2400) is the documented one
        let (appid, dedicated, e) = match &game.protocol {
            Protocol::Valve(Engine::Source(Some((appid, dedicated)))) => {
                let Some(Family::Valve(e)) = family_of_game(game) else { continue };
                (*appid, *dedicated, e)
            }
            _ if name == "theship" => (2400u32, None, super::c02::EngineCfg::Ship2400),
            _ => continue,
        };
        let appid = &appid;
        let foreign = if *appid == 440 || dedicated == Some(440) { 730 } else { 440 };
        let check_on = game.request_settings.check_app_id.unwrap_or(true);
        for (kind, id) in [("its own app id", *appid), ("another game's app id", foreign)] {
            n += 1;
            // another game's server does not send The Ship's extra fields
            let e = if name == "theship" && id != *appid { super::c02::EngineCfg::App440 } else { e };
            let server = valve_server_with_appid(e, id);
            let f2 = f.clone();
            let x = run_query(server(), Box::new(crate::vnet::Faithful), Chooser::new(&[]), move || f2());
            ctx.account(&x, 0);
            let bad_game = matches!(&x.outcome, Outcome::Err(k, _) if *k == GDErrorKind::BadGame);
            let want_bad = check_on && id != *appid;
            ctx.distinct_key(&(name.clone(), kind, x.outcome.class()));
            let panicked = matches!(&x.outcome, Outcome::Panic { .. });
            if bad_game != want_bad || panicked {
                ctx.violation(
                    format!("appid-check:module:{}", if want_bad { "foreign-app-accepted" } else { "rejected-without-cause" }),
                    &[],
                    format!("{label}: games::{name}::query against a server reporting {kind} ({id}); the definition expects {appid} and has app-id checking {}", if check_on { "on" } else { "off" }),
                    x.outcome.describe_json(),
                    if want_bad { "Err(BadGame)" } else { "anything but Err(BadGame)" },
                    render_log(&x.log),
                );
            }
        }
    }
    ctx.note("module_app_id_executions", n);
    ctx.sample(serde_json::json!({"case": label, "executions": n}));
}

pub struct C11;

fn section_kind(sec: Sec) -> &'static str {
    match sec {
        Sec::Valid => "valid",
        Sec::Silent => "silent",
        Sec::Malformed => "malformed",
        Sec::Overrun => "malformed:overrun",
        Sec::BadEnvelope => "malformed:bad-envelope",
        Sec::BadText => "malformed:bad-text",
        Sec::LaterDatagramBad => "malformed:second-of-two-datagrams",
        Sec::ChallengeThenSilent => "challenge-then-silent/unsendable",
    }
}

impl Prop for C11 {
    fn id(&self) -> &'static str { "C11" }
    fn n_cases(&self, _tier: Tier) -> usize { cases().len() }
    fn case_label(&self, _tier: Tier, idx: usize) -> String { cases()[idx].0.clone() }
    fn rule(&self) -> String {
        "full product, one execution per configuration: Valve: 9 (players, rules) toggle pairs x section outcomes {valid, silent, \
         challenge-then-silent, malformed in four ways: garbage / count running past the end / bzip2 split packet with a wrong \
         checksum / invalid UTF-8}^2 x server app id {main, dedicated, other, engine without expectation} x check_app_id \
         on/off = 7056; Unreal 2: 9 toggle pairs x {valid, silent, unsendable, garbage, string overrun, undefined kind, one byte}^2 = 441. Oracle: Skip => that request kind \
         never appears on the wire and the section is absent/empty; Try + failure => result equals the all-valid result with \
         that section absent; Enforce + failure => Err of the section's failure class (receive/send for silence, non-timeout for \
         malformed); app id: check on and id not among the expected => Err(BadGame), otherwise the id never causes failure; every per-game module of a Valve game with an expected app id (and The Ship's), called with its defaults against a server of that game and of another one. \
         distinct_nontrivial = distinct (outcome class, wire-log shape) pairs"
            .into()
    }
    fn run_case(&self, _tier: Tier, idx: usize, ctx: &mut Ctx) {
        let (label, what) = cases()[idx].clone();
        if let What::ModuleAppIds = what {
            run_module_app_ids(ctx, &label);
            return;
        }
        for so_p in SECS {
            for so_r in SECS {
                let outcome = [Sec::Valid, so_p, so_r];
                match what.clone() {
                    What::Valve { players, rules, relation, check } => {
                        // path 0: the protocol's query function; path 1: the definition-driven entry point with every setting
                        // given; path 2 (check on only): the same with check_app_id left out, which means on
                        // (path, challenges per request): the heavier challenge schedule (6 per players / rules request, still
                        // below the client's limit of 10 in a row) on the protocol function only
                        for (path, many) in [(0u8, false), (0, true), (1, false), (2, false)] {
                        if path == 2 && !check {
                            continue;
                        }
                        let per_request = if many { 6usize } else { 1 };
                        let engine = if relation == 3 { valve::Engine::Source(None) } else if relation == 4 { valve::Engine::new_with_dedicated(40_000, 50_000) } else { valve::Engine::new_with_dedicated(440, 441) };
                        let appid: u16 = match relation {
                            0 | 3 => 440,
                            1 => 441,
                            4 => 40_000,
                            _ => 999,
                        };
                        let mut st = valve_seed(super::c02::EngineCfg::App440);
                        st.info.appid = appid;
                        // (relation 4: an old server - the reply has no 64-bit game id, the id is in the unsigned 16-bit field)
                        st.info.edf.as_mut().unwrap().game_id = if relation == 4 { None } else { Some(appid as u64) };
                        let t = rv::Transport {
                            rounds: if many { [0, per_request, per_request] } else { [0, usize::from(so_p == Sec::ChallengeThenSilent), usize::from(so_r == Sec::ChallengeThenSilent)] },
                            ..Default::default()
                        };
                        let server = rv::ValveServer::new(st.clone(), t);
                        let gs = valve::GatheringSettings { players, rules, check_app_id: check };
                        let policy = Sections { valve: true, outcome: [outcome[0], outcome[1], outcome[2]], cur: 0, recvs_in_unit: 0, cts_at: per_request };
                        let x = run_query(Box::new(server), Box::new(policy), Chooser::new(&[]), || {
                            if path == 0 {
                                return valve::query(&addr(), engine, Some(gs), None);
                            }
                            let game = gamedig::Game { name: "C11", default_port: 27015, protocol: gamedig::protocols::types::Protocol::Valve(engine), request_settings: Default::default() };
                            // (path 1 builds the settings with the builder methods, path 2 as a struct literal)
                            let extra = if path == 1 {
                                gamedig::protocols::types::ExtraRequestSettings::default().set_gather_players(players).set_gather_rules(rules).set_check_app_id(check)
                            } else {
                                gamedig::protocols::types::ExtraRequestSettings { hostname: None, protocol_version: None, gather_players: Some(players), gather_rules: Some(rules), check_app_id: None }
                            };
                            let a = addr();
                            let r = gamedig::query_with_timeout_and_extra_settings(&game, &a.ip(), Some(a.port()), None, Some(extra))?;
                            match r.as_original() {
                                gamedig::protocols::GenericResponse::Valve(v) => Ok(v.clone()),
                                _ => Err(GDErrorKind::PacketBad.into()),
                            }
                        });
                        ctx.account(&x, 0);
                        let sent_kinds: Vec<u8> = x.log.iter().filter_map(|e| if let WireEvent::Send { bytes, .. } = e { bytes.get(4).copied() } else { None }).collect();
                        let full = rv::expected(&st, false, &engine, true, true);
                        // reference model
                        let bad_game = check && relation == 2;
                        let mut expect: Result<valve::Response, &'static str> = Ok(valve::Response { info: full.info.clone(), players: None, rules: None });
                        if bad_game {
                            expect = Err("BadGame");
                        } else {
                            let mut resp = valve::Response { info: full.info.clone(), players: None, rules: None };
                            let mut failed: Option<&'static str> = None;
                            for (which, (tg, so)) in [(players, so_p), (rules, so_r)].iter().enumerate() {
                                if failed.is_some() {
                                    break;
                                }
                                let val_ok = *so == Sec::Valid;
                                match tg {
                                    GatherToggle::Skip => {}
                                    GatherToggle::Try => {
                                        if val_ok {
                                            if which == 0 { resp.players = full.players.clone() } else { resp.rules = full.rules.clone() }
                                        }
                                    }
                                    GatherToggle::Enforce => {
                                        if val_ok {
                                            if which == 0 { resp.players = full.players.clone() } else { resp.rules = full.rules.clone() }
                                        } else {
                                            failed = Some(if so.malformed() { "non-timeout" } else { "timeout" });
                                        }
                                    }
                                }
                            }
                            if let Some(f) = failed {
                                expect = Err(f);
                            } else {
                                expect = Ok(resp);
                            }
                        }
                        let cfg = format!("players {players:?}/{} rules {rules:?}/{}{}", section_kind(so_p), section_kind(so_r), ["", "; through the definition-driven entry point", "; through the definition-driven entry point with check_app_id left out"][path as usize].to_string() + if many { "; 6 challenges per request" } else { "" });
                        let mut bad: Option<(String, String)> = None;
                        if players == GatherToggle::Skip && sent_kinds.contains(&0x55) {
                            bad = Some(("skipped-section-requested:valve:players".into(), "a players request was sent although the toggle is Skip".into()));
                        }
                        if rules == GatherToggle::Skip && sent_kinds.contains(&0x56) {
                            bad = Some(("skipped-section-requested:valve:rules".into(), "a rules request was sent although the toggle is Skip".into()));
                        }
                        if bad.is_none() {
                            match (&x.outcome, &expect) {
                                (Outcome::Ok(got), Ok(exp)) => {
                                    if got != exp {
                                        let path = first_diff(&to_json(exp), &to_json(got)).unwrap_or_default();
                                        bad = Some((format!("toggle-result:valve:{}", path.split('[').next().unwrap_or("")), format!("response differs at {path} ({cfg})")));
                                    }
                                }
                                (Outcome::Err(k, _), Err(e)) => {
                                    let ok = match *e {
                                        "BadGame" => *k == GDErrorKind::BadGame,
                                        "timeout" => matches!(k, GDErrorKind::PacketReceive | GDErrorKind::PacketSend),
                                        _ => !matches!(k, GDErrorKind::PacketReceive | GDErrorKind::PacketSend | GDErrorKind::BadGame),
                                    };
                                    if !ok {
                                        bad = Some((format!("toggle-error-kind:valve:{e}"), format!("error kind {k:?} where a {e} failure was expected ({cfg})")));
                                    }
                                }
                                (o, Err(e)) => bad = Some((format!("toggle-should-fail:valve:{e}"), format!("outcome {} where a {e} failure was expected ({cfg})", o.class()))),
                                (o, Ok(_)) => bad = Some((format!("toggle-should-succeed:valve:{}", o.class()), format!("outcome {} where success was expected ({cfg}; app id relation {relation}, check {check})", o.class()))),
                            }
                        }
                        if let Some((class, detail)) = bad {
                            ctx.violation(class, &[so_p as u32, so_r as u32], detail, x.outcome.describe_json(), format!("{:?}", expect.as_ref().map(|r| to_json(r).to_string())), render_log(&x.log));
                        } else if so_p != Sec::Valid && so_r == Sec::Valid {
                            ctx.sample(serde_json::json!({"case": label, "sections": cfg, "outcome": x.outcome.class(), "request_kinds": sent_kinds}));
                        }
                    }
                    }
                    What::ModuleAppIds => unreachable!("handled above"),
                    What::Unreal2 { players, rules } => {
                        // path 0: the protocol's query function; 1: the definition-driven entry point with both toggles given;
                        // 2 (only where the toggles are the protocol's own defaults): the same with both left out
                        let dflt = unreal2::GatheringSettings::default();
                        for path in 0 .. 3u8 {
                        if path == 2 && (players, rules) != (dflt.players, dflt.mutators_and_rules) {
                            continue;
                        }
                        // two servers: the usual one, and one with bots only, which are listed but not counted (num_players 0):
                        // what the info reply says must not decide whether a section is gathered
                        for bots_only in [false, true] {
                        // (a server announcing 0 players is not read beyond the first players datagram: the second one is never seen)
                        if bots_only && so_p == Sec::LaterDatagramBad {
                            continue;
                        }
                        let mut st = u2_seed();
                        if bots_only {
                            for p in st.players.iter_mut() {
                                p.ping = 0;
                            }
                            st.num_players = 0;
                        }
                        // one datagram per list: stale fragments of a failed section are a delivery phenomenon (C08), not a toggle one
                        // (two datagrams per list where the second, last one is to be the bad one: nothing stale is left behind it)
                        let server = ru::U2Server { state: st.clone(), rule_packets: if so_r == Sec::LaterDatagramBad { 2 } else { 1 }, player_packets: if so_p == Sec::LaterDatagramBad { 2 } else { 1 } };
                        let gs = unreal2::GatheringSettings { players, mutators_and_rules: rules };
                        // unit 1 = rules, unit 2 = players
                        let policy = Sections { valve: false, outcome: [Sec::Valid, so_r, so_p], cur: 0, recvs_in_unit: 0, cts_at: 1 };
                        let x = run_query(Box::new(server), Box::new(policy), Chooser::new(&[]), || {
                            if path == 0 {
                                return unreal2::query(&addr(), &gs, None);
                            }
                            let game = gamedig::Game { name: "C11", default_port: 7777, protocol: gamedig::protocols::types::Protocol::Unreal2, request_settings: Default::default() };
                            let extra = if path == 1 {
                                gamedig::protocols::types::ExtraRequestSettings::default().set_gather_rules(rules).set_gather_players(players)
                            } else {
                                gamedig::protocols::types::ExtraRequestSettings { hostname: None, protocol_version: None, gather_players: None, gather_rules: None, check_app_id: None }
                            };
                            let a = addr();
                            let r = gamedig::query_with_timeout_and_extra_settings(&game, &a.ip(), Some(a.port()), None, Some(extra))?;
                            match r.as_original() {
                                gamedig::protocols::GenericResponse::Unreal2(v) => Ok(v.clone()),
                                _ => Err(GDErrorKind::PacketBad.into()),
                            }
                        });
                        ctx.account(&x, 0);
                        let sent_kinds: Vec<u8> = x.log.iter().filter_map(|e| if let WireEvent::Send { bytes, .. } = e { bytes.get(4).copied() } else { None }).collect();
                        let mut resp = st.expected(false, false);
                        let mut failed: Option<&'static str> = None;
                        // rules first, then players
                        for (which, (tg, so)) in [(rules, so_r), (players, so_p)].iter().enumerate() {
                            if failed.is_some() {
                                break;
                            }
                            let val_ok = *so == Sec::Valid;
                            let want = match tg {
                                GatherToggle::Skip => false,
                                GatherToggle::Try => val_ok,
                                GatherToggle::Enforce => {
                                    if !val_ok {
                                        failed = Some(if so.malformed() { "non-timeout" } else { "timeout" });
                                    }
                                    val_ok
                                }
                            };
                            if want {
                                if which == 0 {
                                    resp.mutators_and_rules = st.expected_rules();
                                    resp.server_info = st.expected_info();
                                } else {
                                    resp.players = st.expected_players();
                                }
                            }
                        }
                        let cfg = format!("rules {rules:?}/{} players {players:?}/{}{}{}", section_kind(so_r), section_kind(so_p), ["", "; through the definition-driven entry point", "; through the definition-driven entry point with the toggles left out"][path as usize], if bots_only { "; server announcing 0 players and listing bots" } else { "" });
                        let mut bad: Option<(String, String)> = None;
                        if rules == GatherToggle::Skip && sent_kinds.contains(&1) {
                            bad = Some(("skipped-section-requested:unreal2:rules".into(), "a rules request was sent although the toggle is Skip".into()));
                        }
                        if players == GatherToggle::Skip && sent_kinds.contains(&2) {
                            bad = Some(("skipped-section-requested:unreal2:players".into(), "a players request was sent although the toggle is Skip".into()));
                        }
                        if bad.is_none() {
                            match (&x.outcome, failed) {
                                (Outcome::Ok(got), None) => {
                                    if *got != resp {
                                        let path = first_diff(&to_json(&resp), &to_json(got)).unwrap_or_default();
                                        bad = Some((format!("toggle-result:unreal2:{}", path.split('[').next().unwrap_or("")), format!("response differs at {path} ({cfg})")));
                                    }
                                }
                                (Outcome::Err(k, _), Some(e)) => {
                                    let timeout = matches!(k, GDErrorKind::PacketReceive | GDErrorKind::PacketSend);
                                    if (e == "timeout") != timeout {
                                        bad = Some((format!("toggle-error-kind:unreal2:{e}"), format!("error kind {k:?} where a {e} failure was expected ({cfg})")));
                                    }
                                }
                                (o, Some(e)) => bad = Some((format!("toggle-should-fail:unreal2:{e}"), format!("outcome {} where a {e} failure was expected ({cfg})", o.class()))),
                                (o, None) => bad = Some((format!("toggle-should-succeed:unreal2:{}", o.class()), format!("outcome {} where success was expected ({cfg})", o.class()))),
                            }
                        }
                        if let Some((class, detail)) = bad {
                            ctx.violation(class, &[so_p as u32, so_r as u32], detail, x.outcome.describe_json(), to_json(&resp).to_string(), render_log(&x.log));
                        } else if so_p != Sec::Valid {
                            ctx.sample(serde_json::json!({"case": label, "sections": cfg, "outcome": x.outcome.class(), "request_kinds": sent_kinds}));
                        }
                    }
                    }
                    }
                }
            }
        }
    }
}
