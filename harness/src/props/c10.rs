//! C10 — retries: at most r+1 attempts, only after timeouts, same result.

use super::common::*;
use crate::explore::{explore, ExploreCfg};
use crate::prop::Prop;
use crate::report::{Ctx, Tier};
use crate::rsm::minecraft::java_requests;
use crate::run::{run_query, Outcome};
use crate::targets::*;
use crate::vnet::{render_log, Chooser, Faithful, Pick, Policy, RecvPoint, SendPoint, WireEvent};
use gamedig::protocols::types::GatherToggle;
use gamedig::GDErrorKind;
use serde_json::Value;
use std::sync::OnceLock;

pub const GARBAGE: [u8; 2] = [0xAB, 0xCD];

/// Which request unit a send belongs to.
pub fn unit_of(f: Family, data: &[u8]) -> usize {
    match f {
        Family::Valve(_) | Family::Ffow => {
            match data.get(4) {
                Some(0x55) => 1,
                Some(0x56) => 2,
                _ => 0,
            }
        }
        Family::Unreal2 => data.get(4).copied().unwrap_or(0) as usize,
        _ => 0,
    }
}

/// Does this send start a new attempt of its unit?
pub fn starts_attempt(f: Family, data: &[u8]) -> bool {
    match f {
        Family::Valve(_) => {
            match data.get(4) {
                Some(0x54) => data.len() == 5 + crate::rsm::valve::INFO_PAYLOAD.len(),
                _ => data.get(5 ..) == Some(&[0xFF, 0xFF, 0xFF, 0xFF][..]),
            }
        }
        Family::Ffow => data.get(5 ..) == Some(&b"LSQ"[..]),
        Family::Gs3 | Family::Jc2m => data == crate::rsm::gamespy::GS3_HANDSHAKE,
        Family::Java => data.len() > 2 && data != [0x01, 0x00] && data != [0x01, 0x01],
        _ => true,
    }
}

pub fn units(f: Family, t: &Target) -> Vec<usize> {
    match f {
        // (The Ship's wrapper gathers with Try: section failures are C11's subject)
        Family::Valve(_) if t.name.starts_with("valve::") => vec![0, 1, 2],
        Family::Unreal2 => vec![0, 1, 2],
        _ => vec![0],
    }
}

/// Replies that are malformed in different ways, derived from the datagram `head` the server really sent: unrelated
/// garbage; the reply cut down to its first byte; and, where the format has one, the right prefix / session with a reply
/// kind the format does not define. Every one of them is a reply (something was received), so none may be retried.
pub fn malformed_shapes(f: Family, head: &[u8]) -> Vec<Vec<u8>> {
    let mut v: Vec<Vec<u8>> = vec![GARBAGE.to_vec()];
    // (GameSpy 1 has no header: a lone backslash is an empty, unnumbered part, which the format allows)
    if head.len() > 1 && f != Family::Gs1 {
        v.push(head[.. 1].to_vec());
    }
    let single = head.starts_with(&[0xFF, 0xFF, 0xFF, 0xFF]);
    let with = |idx: usize, b: u8| -> Option<Vec<u8>> {
        if head.len() > idx && head[idx] != b {
            let mut d = head.to_vec();
            d[idx] = b;
            Some(d)
        } else {
            None
        }
    };
    match f {
        // FF FF FF FF <kind>: an undefined kind under the right prefix
        // (in a split packet, FE FF FF FF, the fifth byte belongs to the response id instead)
        Family::Valve(_) | Family::Ffow if single => v.extend(with(4, 0x7a)),
        // FF FF FF FF print\n..: another out-of-band message than the status response
        Family::Quake(_) => v.push(b"\xff\xff\xff\xffprint\nnot a status response\n".to_vec()),
        // <kind> <session id> ..: an undefined kind with the right session id
        Family::Gs3 | Family::Jc2m => v.extend(with(0, 0x7f)),
        // 00 <echoed request id> ..: a wrong delimiter byte
        Family::Gs2 => {
            v.extend(with(0, 0x7f));
            // 00 <another request id> ..: the answer to a request that was not sent
            v.extend(with(4, 0x02));
        }
        // 80 00 00 00 <kind>: an undefined reply kind
        Family::Unreal2 => v.extend(with(4, 0x7f)),
        // 1C ..: not an unconnected pong
        Family::Bedrock => v.extend(with(0, 0x7f)),
        _ => {}
    }
    v.retain(|d| d.as_slice() != head);
    v
}

/// Shapes beyond the first two are well-formed except for a reply kind the format does not define: a client may be lenient
/// about those (the property only forbids retrying after them), so a successful result is tolerated for them.
fn is_undefined_kind_shape(d: &[u8]) -> bool { d != GARBAGE && d.len() > 1 }

/// `unit` value meaning "faults may hit every request unit of the exchange" (the retry count is per request, not per query)
const ALL_UNITS: usize = usize::MAX;

struct Faults {
    family: Family,
    unit: usize,
    cur_unit: usize,
    recv_since_start: usize,
    first_recv_only: bool,
    /// the malformed datagrams delivered in this execution
    delivered: std::sync::Arc<std::sync::Mutex<Vec<Vec<u8>>>>,
}

impl Policy for Faults {
    fn send_menu(&mut self, pt: &SendPoint) -> usize {
        self.cur_unit = unit_of(self.family, pt.data);
        if starts_attempt(self.family, pt.data) {
            self.recv_since_start = 0;
        }
        if self.unit == ALL_UNITS || self.cur_unit == self.unit {
            2
        } else {
            1
        }
    }
    fn recv_menu(&mut self, pt: &RecvPoint) -> usize {
        if (self.unit == ALL_UNITS || self.cur_unit == self.unit) && !pt.queue.is_empty() && (!self.first_recv_only || self.recv_since_start == 0) {
            // (faults in every unit at once: timeout-class faults only, the malformed replies are covered unit by unit)
            if self.unit == ALL_UNITS { 2 } else { 2 + malformed_shapes(self.family, &pt.queue[0]).len() }
        } else {
            1
        }
    }
    fn recv_pick(&mut self, pt: &RecvPoint, idx: usize) -> Pick {
        self.recv_since_start += 1;
        match idx {
            0 => Pick::Head,
            1 => Pick::Timeout { drop_all: true },
            k => {
                let data = malformed_shapes(self.family, &pt.queue[0])[k - 2].clone();
                self.delivered.lock().unwrap().push(data.clone());
                Pick::Custom { data, consume: true }
            }
        }
    }
}

#[derive(Clone, Copy, Debug, PartialEq, Eq)]
pub enum Attempt {
    SendFail,
    Silent,
    Malformed,
    /// malformed only in carrying an undefined reply kind
    UndefinedKind,
    Valid,
}

impl Attempt {
    fn timeout_class(self) -> bool { matches!(self, Attempt::SendFail | Attempt::Silent) }
}

/// Reconstruct the per-attempt outcomes of `unit` from the wire log.
pub fn attempts(f: Family, unit: usize, log: &[WireEvent], malformed: &[Vec<u8>]) -> Vec<Attempt> {
    let mut v: Vec<Attempt> = Vec::new();
    let mut cur_unit = usize::MAX;
    // Unreal 2 reads list datagrams greedily until a timeout: only the first receive belongs to the (retried) request
    let first_only = f == Family::Unreal2;
    let mut recvs = 0usize;
    for e in log {
        match e {
            WireEvent::Send { bytes, ok, .. } => {
                cur_unit = unit_of(f, bytes);
                if cur_unit == unit {
                    if starts_attempt(f, bytes) {
                        v.push(Attempt::Valid);
                        recvs = 0;
                    }
                    if !ok {
                        if let Some(last) = v.last_mut() {
                            if *last == Attempt::Valid {
                                *last = Attempt::SendFail;
                            }
                        }
                    }
                }
            }
            WireEvent::Recv { data, .. } if cur_unit == unit => {
                recvs += 1;
                if first_only && recvs > 1 {
                    continue;
                }
                if let Some(last) = v.last_mut() {
                    if *last == Attempt::Valid {
                        match data {
                            None => *last = Attempt::Silent,
                            // (the client may have asked for fewer bytes than the datagram has)
                            Some(d) if malformed.iter().any(|m| m == d || (d.len() < m.len() && m.starts_with(d))) => {
                                *last = if malformed.iter().any(|m| m == d && is_undefined_kind_shape(m)) { Attempt::UndefinedKind } else { Attempt::Malformed };
                            }
                            _ => {}
                        }
                    }
                }
            }
            _ => {}
        }
    }
    v
}

/// The attempt-sequence rules of the reference model for one request unit and retry count `r`.
fn judge_attempts(at: &[Attempt], r: usize) -> Option<(String, String)> {
    let mut bad: Option<(String, String)> = None;
    if at.len() > r + 1 {
        bad = Some(("too-many-attempts".into(), format!("{} attempts with retries={r}", at.len())));
    }
    for (i, a) in at.iter().enumerate() {
        let more = i + 1 < at.len();
        if !a.timeout_class() && more {
            bad = Some((
                if matches!(a, Attempt::Malformed | Attempt::UndefinedKind) { "retry-after-malformed-reply".into() } else { "retry-after-valid-reply".into() },
                format!("attempt {} was {a:?} but {} more followed", i + 1, at.len() - i - 1),
            ));
            break;
        }
        if a.timeout_class() && !more && i + 1 < r + 1 {
            bad = Some(("gives-up-before-r+1-attempts".into(), format!("{} attempts, last one {a:?}, retries={r}", at.len())));
        }
    }
    bad
}

#[derive(Clone)]
struct Case {
    label: String,
    target: Target,
    retries: usize,
    unit: usize,
    /// run against a server with nobody on it (the retry rules must not depend on what an earlier reply said)
    empty_server: bool,
    /// the sections are gathered with Try: a section whose attempts are exhausted is left out instead of failing the query
    /// (what the result then is, is C11's subject; the attempts are counted all the same)
    try_sections: bool,
    /// the server's state changes between attempts (a player leaves, a variable goes): the result is the reply of the attempt
    /// that was answered, with nothing left over from an earlier, abandoned attempt
    changing: bool,
    /// the server answers every request with another challenge: replies keep arriving, so nothing here is timeout-class
    challenge_forever: bool,
}

/// The definition-driven entry point for one single-request game of several families: the caller's retry count has to
/// reach the protocol through it as well.
fn generic_targets() -> Vec<Target> {
    use std::sync::Arc;
    [("mindustry", Family::Mindustry), ("q3a", Family::Quake(crate::rsm::quake::Ver::Three)), ("minecraftbedrock", Family::Bedrock), ("hce", Family::Gs2)]
        .into_iter()
        .filter_map(|(id, family)| {
            let game = gamedig::GAMES.get(id)?;
            Some(Target {
                name: format!("gamedig::query_with_timeout('{id}')"),
                family,
                server: server_for(family),
                call: Arc::new(move |ts| gamedig::query_with_timeout(game, &IP4, Some(PORT), ts).map(|r| to_json(&r.as_original()))),
                honours_timeout: true,
                toggles: None,
            })
        })
        .collect()
}

fn build(tier: Tier) -> Vec<Case> {
    let mut v = Vec::new();
    for t in protocol_targets().into_iter().chain(generic_targets()) {
        if !t.honours_timeout || matches!(t.family, Family::McAuto | Family::McLegacyAuto | Family::Savage2 | Family::Master) {
            continue;
        }
        // sections must be requested and failures must surface: Enforce / Enforce only
        if let Some((p, r)) = t.toggles {
            if p != GatherToggle::Enforce || r != GatherToggle::Enforce {
                continue;
            }
        }
        for unit in units(t.family, &t) {
            for retries in 0 ..= if tier.is_thorough() { 5usize } else { 3 } {
                v.push(Case {
                    label: format!("{} request unit {unit} retries={retries}", t.name),
                    target: t.clone(),
                    retries,
                    unit,
                    empty_server: false,
                    try_sections: false,
                    changing: false,
                    challenge_forever: false,
                });
                if matches!(t.family, Family::Unreal2 | Family::Valve(_)) && retries <= 2 {
                    v.push(Case {
                        label: format!("{} request unit {unit} retries={retries}, server with no players", t.name),
                        target: t.clone(),
                        retries,
                        unit,
                        empty_server: true,
                        try_sections: false,
                    changing: false,
                    challenge_forever: false,
                    });
                }
            }
        }
    }
    // multi-request exchanges: timeout-class faults in every request of the same query (each request has its own r+1 attempts)
    for t in protocol_targets() {
        if !t.honours_timeout || !matches!(t.family, Family::Unreal2 | Family::Valve(_)) || units(t.family, &t).len() < 2 {
            continue;
        }
        let try_sections = match t.toggles {
            Some((GatherToggle::Enforce, GatherToggle::Enforce)) | None => false,
            Some((GatherToggle::Try, GatherToggle::Try)) => true,
            _ => continue,
        };
        for retries in 0 ..= if tier.is_thorough() { 3usize } else { 2 } {
            v.push(Case {
                label: format!("{} faults in every request unit retries={retries}", t.name),
                target: t.clone(),
                retries,
                unit: ALL_UNITS,
                empty_server: false,
                try_sections,
                changing: false,
                    challenge_forever: false,
            });
        }
    }
    // a Valve server that answers every request with yet another challenge
    for t in protocol_targets() {
        if !matches!(t.family, Family::Valve(_)) || !t.name.starts_with("valve::") || t.toggles != Some((GatherToggle::Enforce, GatherToggle::Enforce)) {
            continue;
        }
        for retries in 0 ..= 2usize {
            v.push(Case {
                label: format!("{} retries={retries}, server answering every request with another challenge", t.name),
                target: t.clone(),
                retries,
                unit: 0,
                empty_server: false,
                try_sections: false,
                changing: false,
                challenge_forever: true,
            });
        }
    }
    // a server whose state changes between attempts
    for t in protocol_targets() {
        if !matches!(t.name.as_str(), "gamespy::one::query" | "gamespy::one::query_vars" | "gamespy::two::query" | "gamespy::three::query" | "gamespy::three::query_vars" | "quake::three::query") {
            continue;
        }
        for retries in 1 ..= 2usize {
            v.push(Case {
                label: format!("{} request unit 0 retries={retries}, server state changing between attempts", t.name),
                target: t.clone(),
                retries,
                unit: 0,
                empty_server: false,
                try_sections: false,
                changing: true,
                challenge_forever: false,
            });
        }
    }
    v
}

/// Serves attempt k of the client from `servers[min(k, last)]`.
struct Changing {
    family: Family,
    servers: Vec<Box<dyn crate::vnet::Responder>>,
    attempts: usize,
}
impl crate::vnet::Responder for Changing {
    fn on_datagram(&mut self, c: &crate::vnet::ConnInfo, data: &[u8]) -> Vec<Vec<u8>> {
        if starts_attempt(self.family, data) {
            self.attempts += 1;
        }
        let i = self.attempts.saturating_sub(1).min(self.servers.len() - 1);
        self.servers[i].on_datagram(c, data)
    }
}

/// The two states of a changing server: the family's seed, and the seed after its last player has left (and, where the
/// format has free variables, one of them has gone).
fn changing_servers(family: Family) -> Vec<Box<dyn crate::vnet::Responder>> {
    use crate::rsm::gamespy::{Gs1Server, Gs2Server, Gs3Server};
    use crate::rsm::quake::QuakeServer;
    match family {
        Family::Gs1 => {
            let a = gs1_seed();
            let mut b = a.clone();
            b.players.pop();
            b.extra.pop();
            b.numplayers = b.numplayers.map(|n| n.saturating_sub(1));
            let (na, nb) = (a.pairs().len(), b.pairs().len());
            vec![Box::new(Gs1Server { state: a, cut_at: vec![na / 2] }), Box::new(Gs1Server { state: b, cut_at: vec![nb / 2] })]
        }
        Family::Gs2 => {
            let a = gs2_seed();
            let mut b = a.clone();
            b.players.pop();
            vec![Box::new(Gs2Server { state: a }), Box::new(Gs2Server { state: b })]
        }
        Family::Gs3 => {
            let a = gs3_seed();
            let mut b = a.clone();
            b.players.pop();
            let cut = |s: &crate::rsm::gamespy::Gs3State| vec![s.first_data_atom() + (s.n_atoms() - s.first_data_atom()) / 2];
            let (ca, cb) = (cut(&a), cut(&b));
            vec![Box::new(Gs3Server::new(a, ca)), Box::new(Gs3Server::new(b, cb))]
        }
        Family::Quake(v) => {
            let a = quake_seed(v);
            let mut b = a.clone();
            b.players.pop();
            vec![Box::new(QuakeServer { state: a }), Box::new(QuakeServer { state: b })]
        }
        other => panic!("no changing server for {other:?}"),
    }
}

static CASES: OnceLock<Vec<Case>> = OnceLock::new();
fn cases(tier: Tier) -> &'static Vec<Case> { CASES.get_or_init(|| build(tier)) }

pub struct C10;

impl Prop for C10 {
    fn id(&self) -> &'static str { "C10" }
    fn n_cases(&self, tier: Tier) -> usize { cases(tier).len() }
    fn case_label(&self, tier: Tier, idx: usize) -> String { cases(tier)[idx].label.clone() }
    fn rule(&self) -> String {
        "case = (protocol entry point that retries - also the definition-driven entry point for one single-request game of four families -, request unit of its exchange: info / players / rules, handshake+data, \
         handshake+status+ping ..., retry count r in 0..3 (quick) / 0..5 (thorough)). Within the unit every send may fail and every pending reply may \
         be delivered, dropped (silence) or replaced by a malformed reply (2-4 shapes per format, see assumptions); ALL such outcome sequences are enumerated (the tree is finite \
         because attempts are bounded), the other units are answered validly; for the multi-request exchanges (Valve, Unreal 2) also \
         all sequences of timeout-class faults in EVERY unit of one query (r <= 2 quick / 3 thorough): each request has its own r+1 attempts. Every attempt of a unit must open with the same bytes. Also: servers whose state changes between attempts (the result is the answered attempt's reply, nothing left over) and a Valve server that answers every request with another challenge (one attempt, no receive-class error). Below an execution that has already left the reference model the tree is not expanded. Reference model: attempts continue exactly \
         while the previous attempt was timeout-class (nothing received / could not send) and fewer than r+1 were made; never \
         after a malformed reply; first valid attempt => result identical to the fault-free result; malformed => error of a \
         non-timeout kind; all r+1 timeout-class => PacketReceive / PacketSend error. distinct_nontrivial = distinct (outcome \
         class, wire-log shape) pairs"
            .into()
    }
    fn assumptions(&self) -> Vec<String> {
        vec![
            "gather toggles are Enforce so that section failures surface as errors (Try/Skip semantics are C11's subject)".into(),
            "'malformed' is one of: the 2-byte datagram AB CD; the real reply cut down to its first byte; the real reply with an undefined reply kind under the right prefix / session id (Valve, FFOW, GameSpy 2/3, Unreal 2, Bedrock) or another out-of-band message (Quake 'print'); each is rejected by the format".into(),
        ]
    }
    fn run_case(&self, tier: Tier, idx: usize, ctx: &mut Ctx) {
        let case = cases(tier)[idx].clone();
        let t = &case.target;
        let fam = if t.name.starts_with("jc2m") { Family::Jc2m } else { t.family };
        let ts = super::c01::timeouts(case.retries);
        let family = t.family;
        let empty = case.empty_server;
        let default_server = t.server.clone();
        let changing = case.changing;
        let mk_server = move || -> Box<dyn crate::vnet::Responder> {
            if changing {
                return Box::new(Changing { family, servers: changing_servers(family), attempts: 0 });
            }
            if !empty {
                return default_server();
            }
            match family {
                Family::Unreal2 => {
                    let mut s = u2_seed();
                    s.players.clear();
                    s.num_players = 0;
                    Box::new(crate::rsm::unreal2::U2Server { state: s, rule_packets: 2, player_packets: 1 })
                }
                Family::Valve(e) => {
                    let mut s = valve_seed(e);
                    s.players.clear();
                    s.info.players = 0;
                    let tr = valve_seed_transport(e, &s);
                    Box::new(crate::rsm::valve::ValveServer::new(s, tr))
                }
                _ => default_server(),
            }
        };
        if case.challenge_forever {
            let Family::Valve(e) = family else { unreachable!() };
            let st = valve_seed(e);
            let mut tr = valve_seed_transport(e, &st);
            tr.rounds = [1000, 1000, 1000];
            let x = run_query(Box::new(crate::rsm::valve::ValveServer::new(st, tr)), Box::new(Faithful), Chooser::new(&[]), || (t.call)(ts));
            ctx.account(&x, 0);
            let starts = x.log.iter().filter(|e| matches!(e, WireEvent::Send { bytes, .. } if unit_of(fam, bytes) == 0 && starts_attempt(fam, bytes))).count();
            let timeouts = x.log.iter().filter(|e| matches!(e, WireEvent::Recv { data: None, .. })).count();
            let kind_ok = matches!(x.outcome.err_kind(), Some(k) if *k != GDErrorKind::PacketReceive && *k != GDErrorKind::PacketSend);
            ctx.distinct_key(&(case.label.clone(), starts, x.outcome.class()));
            if timeouts == 0 && (starts != 1 || !kind_ok) {
                ctx.violation(
                    format!("retry:re-attempt-without-a-timeout:{}", super::c09::family_tag(fam)),
                    &[],
                    format!("{}: every request was answered (with a challenge), yet the info request was started {starts} times; outcome {}", case.label, x.outcome.class()),
                    format!("{starts} attempts; outcome {}", x.outcome.describe_json()),
                    "one attempt and an error that is not of the receive / send class".to_string(),
                    render_log(&x.log).into_iter().take(40).collect(),
                );
            } else {
                ctx.sample(serde_json::json!({"case": case.label, "attempts": starts, "outcome": x.outcome.class()}));
            }
            return;
        }
        let base = run_query(mk_server(), Box::new(Faithful), Chooser::new(&[]), || (t.call)(ts));
        let Outcome::Ok(baseline) = base.outcome.clone() else {
            ctx.violation(
                format!("fault-free-run-fails:{}", super::c09::family_tag(fam)),
                &[],
                "the fault-free exchange does not succeed",
                base.outcome.describe_json(),
                "Ok(..)",
                render_log(&base.log),
            );
            return;
        };
        let _ = java_requests;
        let r = case.retries;
        // (changing server: the fault-free answer of each of its states)
        let baselines: Vec<Value> = if case.changing {
            changing_servers(family)
                .into_iter()
                .map(|srv| match run_query(srv, Box::new(Faithful), Chooser::new(&[]), || (t.call)(ts)).outcome {
                    Outcome::Ok(v) => v,
                    other => panic!("changing server state does not answer: {}", other.class()),
                })
                .collect()
        } else {
            vec![]
        };
        explore(
            ctx,
            // (no case of the unchanged tree comes near the cap; it is a safety net for trees that a defect makes large)
            &ExploreCfg { bound: usize::MAX, max_execs: 2_000_000 },
            |prefix| {
                let delivered = std::sync::Arc::new(std::sync::Mutex::new(Vec::new()));
                let policy = Faults {
                    family: fam,
                    unit: case.unit,
                    cur_unit: usize::MAX,
                    recv_since_start: 0,
                    first_recv_only: fam == Family::Unreal2,
                    delivered: delivered.clone(),
                };
                let x = run_query(mk_server(), Box::new(policy), Chooser::new(prefix), || (t.call)(ts));
                let d = delivered.lock().unwrap().clone();
                (x, d)
            },
            |ctx, x, malformed| {
                let tag = super::c09::family_tag(fam);
                if case.unit == ALL_UNITS {
                    let mut bad: Option<(String, String)> = None;
                    let mut exhausted = false;
                    let mut all: Vec<Vec<Attempt>> = Vec::new();
                    let mut section_left_out = false;
                    for u in [0usize, 1, 2] {
                        let at = attempts(fam, u, &x.log, &[]);
                        if bad.is_none() {
                            bad = judge_attempts(&at, r).map(|(k, d)| (format!("{k}:unit{u}-with-faults-in-other-units"), d));
                        }
                        if at.last().is_some_and(|a| a.timeout_class()) {
                            if case.try_sections && u > 0 {
                                section_left_out = true;
                            } else {
                                exhausted = true;
                            }
                        }
                        all.push(at);
                    }
                    if bad.is_none() {
                        if exhausted {
                            match x.outcome.err_kind() {
                                Some(GDErrorKind::PacketReceive) | Some(GDErrorKind::PacketSend) => {}
                                _ => bad = Some(("exhausted-retries-not-a-timeout-error".into(), format!("outcome {}", x.outcome.class()))),
                            }
                        } else if section_left_out {
                            if x.outcome.ok().is_none() {
                                bad = Some(("try-section-failure-fails-the-query".into(), format!("outcome {}", x.outcome.class())));
                            }
                        } else if x.outcome.ok() != Some(&baseline) {
                            bad = Some(("result-differs-from-fault-free".into(), format!("outcome {}", x.outcome.class())));
                        }
                    }
                    match bad {
                        None => {
                            if all.iter().filter(|a| a.len() > 1).count() > 1 {
                                ctx.sample(serde_json::json!({"case": case.label, "attempt_outcomes_per_unit": format!("{all:?}"), "result": x.outcome.class()}));
                            }
                        }
                        Some((kind, detail)) => {
                            // (the reference model is already left: what follows such an execution adds nothing, and with a
                            // broken attempt bound the tree below it is no longer small)
                            ctx.prune_children = true;
                            ctx.violation(
                                format!("retry:{kind}:{tag}"),
                                &x.choices(),
                                detail,
                                format!("attempts per request unit {all:?}; outcome {}", x.outcome.describe_json()),
                                format!("reference model for retries={r}: every request has its own {} attempts", r + 1),
                                render_log(&x.log),
                            );
                        }
                    }
                    return;
                }
                let at = attempts(fam, case.unit, &x.log, malformed);
                let mut bad: Option<(String, String)> = judge_attempts(&at, r);
                // a re-attempt is the same request again: every attempt of the unit opens with the same bytes
                {
                    let opens: Vec<&Vec<u8>> = x.log.iter().filter_map(|e| match e {
                        WireEvent::Send { bytes, .. } if unit_of(fam, bytes) == case.unit && starts_attempt(fam, bytes) => Some(bytes),
                        _ => None,
                    }).collect();
                    if let Some(d) = opens.iter().find(|d| **d != opens[0]) {
                        bad = Some(("re-attempt-is-another-request".into(), format!("first attempt sent {}, a later one {}", crate::vnet::hex(opens[0]), crate::vnet::hex(d))));
                    }
                }
                if bad.is_none() {
                    match at.last() {
                        None => {}
                        Some(Attempt::Valid) => {
                            // (the server counts the attempts that reached it: one whose send failed did not)
                            let reached = x.log.iter().filter(|e| matches!(e, WireEvent::Send { bytes, ok: true, .. } if starts_attempt(fam, bytes))).count();
                            let want = if case.changing { &baselines[reached.saturating_sub(1).min(baselines.len() - 1)] } else { &baseline };
                            if x.outcome.ok() != Some(want) {
                                bad = Some((if case.changing { "result-is-not-the-answered-attempt's-reply".into() } else { "result-differs-from-fault-free".into() }, format!("outcome {}", x.outcome.class())));
                            }
                        }
                        Some(Attempt::UndefinedKind) if x.outcome.ok().is_some() => {}
                        Some(Attempt::Malformed) | Some(Attempt::UndefinedKind) => {
                            match x.outcome.err_kind() {
                                Some(k) if *k != GDErrorKind::PacketReceive && *k != GDErrorKind::PacketSend => {}
                                _ => bad = Some(("malformed-reply-not-reported".into(), format!("outcome {}", x.outcome.class()))),
                            }
                        }
                        Some(_) => {
                            match x.outcome.err_kind() {
                                Some(GDErrorKind::PacketReceive) | Some(GDErrorKind::PacketSend) => {}
                                _ => bad = Some(("exhausted-retries-not-a-timeout-error".into(), format!("outcome {}", x.outcome.class()))),
                            }
                        }
                    }
                }
                match bad {
                    None => {
                        if at.len() > 1 {
                            ctx.sample(serde_json::json!({"case": case.label, "attempt_outcomes": format!("{at:?}"), "result": x.outcome.class()}));
                        }
                    }
                    Some((kind, detail)) => {
                        ctx.prune_children = true;
                        ctx.violation(
                            format!("retry:{kind}:{tag}:unit{}", case.unit),
                            &x.choices(),
                            detail,
                            format!("attempts {at:?}; outcome {}", x.outcome.describe_json()),
                            format!("reference model for retries={r}"),
                            render_log(&x.log),
                        );
                    }
                }
            },
        );
    }
}
