pub mod common;
pub mod c02;

use crate::prop::Prop;

pub fn all() -> Vec<&'static dyn Prop> {
    vec![&c02::C02]
}
