//! Eco (HTTP/JSON) over a loopback responder (real sockets; the library's
//! HTTP client does not go through the socket seam).

use super::common::*;
use crate::explore::{explore, ExploreCfg};
use crate::report::Ctx;
use crate::rsm::*;
use crate::run::{Exec, Outcome};
use crate::vnet::Chooser;
use gamedig::games::eco;
use std::collections::HashMap;
use std::io::{Read, Write};
use std::net::{IpAddr, Ipv4Addr, TcpListener};
use std::sync::mpsc;
use std::time::Duration;

#[derive(Clone, Debug, PartialEq)]
pub struct EcoState {
    pub b: [bool; 8],
    pub u: [u32; 10],
    pub f: [f64; 4],
    pub s: Vec<String>,
    pub names: Vec<String>,
    pub dict: Vec<(String, String)>,
}

const S_KEYS: [&str; 15] = [
    "Description",
    "DetailedDescription",
    "Category",
    "WorldSize",
    "Version",
    "EconomyDesc",
    "SkillSpecializationSetting",
    "Language",
    "DistributionStationItems",
    "Playtimes",
    "DiscordAddress",
    "RelayAddress",
    "Access",
    "JoinUrl",
    "",
];
const B_KEYS: [&str; 8] = ["External", "IsLAN", "AdminOnline", "HasPassword", "HasMeteor", "IsPaused", "IsLimitingHours", ""];
const U_KEYS: [&str; 10] = [
    "GamePort",
    "WebPort",
    "OnlinePlayers",
    "TotalPlayers",
    "Animals",
    "Plants",
    "Laws",
    "ActiveAndOnlinePlayers",
    "PeakActivePlayers",
    "MaxActivePlayers",
];
const F_KEYS: [&str; 4] = ["TimeSinceStart", "TimeLeft", "ShelfLifeMultiplier", "ExhaustionAfterHours"];

pub fn gen_eco(c: &mut Chooser) -> EcoState {
    let mut b = [false; 8];
    for (i, x) in b.iter_mut().enumerate().take(7) {
        *x = pick(c, &[i % 2 == 0, i % 2 != 0]);
    }
    let mut u = [0u32; 10];
    for (i, x) in u.iter_mut().enumerate() {
        *x = pick(c, &u32_alts(3000 + i as u32));
    }
    let mut f = [0f64; 4];
    for (i, x) in f.iter_mut().enumerate() {
        *x = pick(c, &[1234.5 + i as f64, 0.0, -1.25, 1e300, 5e-324]);
    }
    let s: Vec<String> = (0 .. 14)
        .map(|i| {
            pick(c, &[
                format!("text {i}"),
                String::new(),
                "quote \" backslash \\ <b>markup</b> \n".to_string(),
                "Zürich 東京 𝄞".to_string(),
                long_string(300),
                // larger than any allocation hint / default buffer of the HTTP client
                long_string(20_000),
            ])
        })
        .collect();
    let names = pick(c, &[
        vec!["Alice".to_string(), "Bob".to_string()],
        vec![],
        vec!["quote\"d".to_string()],
        (0 .. 100).map(|i| format!("p{i}")).collect(),
    ]);
    let dict = pick(c, &[
        vec![("First Blood".to_string(), "Alice".to_string())],
        vec![],
        vec![("a".to_string(), String::new()), ("ключ".to_string(), "значение".to_string())],
    ]);
    EcoState { b, u, f, s, names, dict }
}

impl EcoState {
    pub fn json(&self) -> String {
        use serde_json::{json, Map, Value};
        let mut m = Map::new();
        for i in 0 .. 7 {
            m.insert(B_KEYS[i].into(), json!(self.b[i]));
        }
        for i in 0 .. 10 {
            m.insert(U_KEYS[i].into(), json!(self.u[i]));
        }
        for i in 0 .. 4 {
            m.insert(F_KEYS[i].into(), json!(self.f[i]));
        }
        for i in 0 .. 14 {
            m.insert(S_KEYS[i].into(), json!(self.s[i]));
        }
        m.insert("OnlinePlayersNames".into(), json!(self.names));
        let d: Map<String, Value> = self.dict.iter().map(|(k, v)| (k.clone(), json!(v))).collect();
        m.insert("ServerAchievementsDict".into(), Value::Object(d));
        json!({"Info": Value::Object(m)}).to_string()
    }

    pub fn expected(&self) -> eco::Response {
        let s = &self.s;
        eco::Response {
            external: self.b[0],
            port: self.u[0],
            query_port: self.u[1],
            is_lan: self.b[1],
            description: s[0].clone(),
            description_detailed: s[1].clone(),
            description_economy: s[5].clone(),
            category: s[2].clone(),
            players_online: self.u[2],
            players_maximum: self.u[3],
            players: self.names.iter().map(|n| eco::Player { name: n.clone() }).collect(),
            admin_online: self.b[2],
            time_since_start: self.f[0],
            time_left: self.f[1],
            animals: self.u[4],
            plants: self.u[5],
            laws: self.u[6],
            world_size: s[3].clone(),
            game_version: s[4].clone(),
            skill_specialization_setting: s[6].clone(),
            language: s[7].clone(),
            has_password: self.b[3],
            has_meteor: self.b[4],
            distribution_station_items: s[8].clone(),
            playtimes: s[9].clone(),
            discord_address: s[10].clone(),
            is_paused: self.b[5],
            active_and_online_players: self.u[7],
            peak_active_players: self.u[8],
            max_active_players: self.u[9],
            shelf_life_multiplier: self.f[2],
            exhaustion_after_hours: self.f[3],
            is_limiting_hours: self.b[6],
            server_achievements_dict: self.dict.iter().cloned().collect::<HashMap<_, _>>(),
            relay_address: s[11].clone(),
            access: s[12].clone(),
            connect: s[13].clone(),
        }
    }
}

/// One-shot HTTP/1.1 responder on a loopback port. Returns (port, receiver of
/// the raw request text).
pub fn serve_once(ip: IpAddr, body: Vec<u8>, mode: u8) -> (u16, mpsc::Receiver<String>) {
    let listener = TcpListener::bind((ip, 0)).expect("bind loopback http");
    let port = listener.local_addr().unwrap().port();
    let (tx, rx) = mpsc::channel();
    std::thread::spawn(move || {
        listener.set_nonblocking(false).ok();
        let Ok((mut s, _)) = listener.accept() else { return };
        s.set_read_timeout(Some(Duration::from_secs(5))).ok();
        let mut req = Vec::new();
        let mut buf = [0u8; 2048];
        while !req.windows(4).any(|w| w == b"\r\n\r\n") {
            match s.read(&mut buf) {
                Ok(0) | Err(_) => break,
                Ok(n) => req.extend_from_slice(&buf[.. n]),
            }
        }
        let _ = tx.send(String::from_utf8_lossy(&req).to_string());
        let mut out = Vec::new();
        match mode {
            0 => {
                out.extend_from_slice(format!("HTTP/1.1 200 OK\r\nContent-Type: application/json\r\nContent-Length: {}\r\nConnection: close\r\n\r\n", body.len()).as_bytes());
                out.extend_from_slice(&body);
            }
            1 => {
                out.extend_from_slice(b"HTTP/1.1 200 OK\r\nContent-Type: application/json\r\nTransfer-Encoding: chunked\r\nConnection: close\r\n\r\n");
                for chunk in body.chunks(97) {
                    out.extend_from_slice(format!("{:x}\r\n", chunk.len()).as_bytes());
                    out.extend_from_slice(chunk);
                    out.extend_from_slice(b"\r\n");
                }
                out.extend_from_slice(b"0\r\n\r\n");
            }
            2 => {
                out.extend_from_slice(b"HTTP/1.1 200 OK\r\nContent-Type: application/json\r\nConnection: close\r\n\r\n");
                out.extend_from_slice(&body);
            }
            _ => {
                let mut enc = flate2::write::GzEncoder::new(Vec::new(), flate2::Compression::default());
                enc.write_all(&body).unwrap();
                let z = enc.finish().unwrap();
                out.extend_from_slice(format!("HTTP/1.1 200 OK\r\nContent-Type: application/json\r\nContent-Encoding: gzip\r\nContent-Length: {}\r\nConnection: close\r\n\r\n", z.len()).as_bytes());
                out.extend_from_slice(&z);
            }
        }
        let _ = s.write_all(&out);
        let _ = s.flush();
    });
    (port, rx)
}

pub fn run_eco_case(ctx: &mut Ctx, bound: usize, mode: u8) {
    let label = ctx.case_label.clone();
    explore(
        ctx,
        &ExploreCfg::bound(bound),
        |prefix| {
            let mut ch = Chooser::new(prefix);
            let state = gen_eco(&mut ch);
            let ip = IpAddr::V4(Ipv4Addr::LOCALHOST);
            let (port, rx) = serve_once(ip, state.json().into_bytes(), mode);
            let r = crate::run::run_pure(|| eco::query(&ip, Some(port)));
            let req = rx.recv_timeout(Duration::from_secs(2)).unwrap_or_default();
            let outcome = match r {
                Ok(Ok(t)) => Outcome::Ok(t),
                Ok(Err(e)) => Outcome::Err(e.kind, e.source.map(|s| s.to_string()).unwrap_or_default()),
                Err((msg, loc)) => Outcome::Panic { msg, loc },
            };
            let x = Exec {
                outcome,
                log: vec![],
                points: ch.points.clone(),
                alloc: Default::default(),
                ops: 2,
            };
            (x, (state, req))
        },
        |ctx, x, (state, req)| {
            let exp = state.expected();
            if check_equal(ctx, x, &exp, "eco") {
                ctx.distinct_key(&(x.choices(), mode));
                ctx.sample(serde_json::json!({"case": label, "choices": x.choices(), "request_line": req.lines().next().unwrap_or("")}));
            }
            if !req.starts_with("GET /frontpage HTTP/1.1\r\n") {
                ctx.violation(
                    "eco-request",
                    &x.choices(),
                    "Eco query did not request GET /frontpage",
                    // (the loopback port is ephemeral: keep it out of the record so that a replay compares equal)
                    clip(&regex_free_port_mask(req), 200),
                    "GET /frontpage HTTP/1.1",
                    vec![],
                );
            }
        },
    );
}


/// `Host: 127.0.0.1:43761` -> `Host: 127.0.0.1:<port>`
fn regex_free_port_mask(req: &str) -> String {
    req.lines()
        .map(|l| {
            if l.to_ascii_lowercase().starts_with("host:") {
                match l.rfind(':') {
                    Some(i) if i > 5 && l[i + 1 ..].chars().all(|c| c.is_ascii_digit()) => format!("{}:<port>", &l[.. i]),
                    _ => l.to_string(),
                }
            } else {
                l.to_string()
            }
        })
        .collect::<Vec<_>>()
        .join("\r\n")
}
