//! C07 — single-game protocols (and Eco over HTTP) map every field.

use super::common::*;
use crate::prop::Prop;
use crate::report::{Ctx, Tier};
use crate::rsm::gamespy::{Gs3Server, Gs3State};
use crate::rsm::misc::*;
use crate::rsm::valve as rv;
use gamedig::games::{battalion1944, ffow, jc2m, mindustry, savage2, theship};
use gamedig::protocols::valve;
use std::collections::HashMap;

#[derive(Clone, Debug)]
enum What {
    Ffow { fragments: usize, rounds: usize },
    Savage2,
    Jc2m,
    Mindustry,
    /// (the server speaks protocol version 7, as old Source servers do)
    TheShip { protocol7: bool },
    /// `contrary`: the info reply says the opposite of what the override rules say (password set, rule says N)
    Battalion { overrides: u8, contrary: bool },
    Eco { mode: u8 },
}

#[derive(Clone, Debug)]
struct Case {
    label: String,
    what: What,
    bound: usize,
}

const BAT_KEYS: [&str; 6] = [
    "bat_max_players_i",
    "bat_player_count_s",
    "bat_has_password_s",
    "bat_name_s",
    "bat_gamemode_s",
    "bat_map_s",
];

fn cases(tier: Tier) -> Vec<Case> {
    let dev = if tier.is_thorough() { 2 } else { 1 };
    let mut v = Vec::new();
    for (fragments, rounds) in [(1usize, 0usize), (1, 1), (2, 0), (3, 1), (1, 2)] {
        let b = if fragments == 1 && rounds == 0 { dev } else { dev.min(1) };
        v.push(Case {
            label: format!("ffow fragments={fragments} challenge rounds={rounds} dev<={b}"),
            what: What::Ffow { fragments, rounds },
            bound: b,
        });
    }
    v.push(Case { label: format!("savage2 dev<={dev}"), what: What::Savage2, bound: dev });
    v.push(Case { label: format!("jc2m dev<={dev}"), what: What::Jc2m, bound: dev });
    v.push(Case { label: format!("mindustry dev<={dev}"), what: What::Mindustry, bound: dev });
    v.push(Case { label: format!("theship dev<={dev}"), what: What::TheShip { protocol7: false }, bound: dev });
    v.push(Case { label: format!("theship, server speaking protocol 7, dev<={dev}"), what: What::TheShip { protocol7: true }, bound: dev });
    for overrides in 0 .. 64u8 {
        let b = if overrides == 0 || overrides == 63 { dev } else { 0 };
        for contrary in [false, true] {
            v.push(Case {
                label: format!("battalion1944 overrides present={overrides:06b}{} dev<={b}", if contrary { " (info reply contradicting the rules)" } else { "" }),
                what: What::Battalion { overrides, contrary },
                bound: b,
            });
        }
    }
    for mode in 0 .. 4u8 {
        // every body framing gets the single-field deviations (a long body must survive chunked / close-delimited / gzip too)
        let b = dev.min(1);
        v.push(Case {
            label: format!("eco http mode={} dev<={b}", ["content-length", "chunked", "close-delimited", "gzip"][mode as usize]),
            what: What::Eco { mode },
            bound: b,
        });
    }
    v
}

pub struct C07;

impl Prop for C07 {
    fn id(&self) -> &'static str { "C07" }
    fn n_cases(&self, tier: Tier) -> usize { cases(tier).len() }
    fn case_label(&self, tier: Tier, idx: usize) -> String { cases(tier)[idx].label.clone() }
    fn rule(&self) -> String {
        "case = (game format, transport variant); within a case every well-formed reply within <= bound field deviations of the \
         default (boundary alphabets for every numeric field, empty/multi-byte/long strings, optional trailing fields, 0/1/2/100 \
         players, reported-vs-listed counts below/equal/above, every subset of the six Battalion 1944 override rules) is served \
         by the reference model (The Ship also from a server speaking protocol 7 that splits players and rules in two, JC2-MP with every kind of challenge) and the game's query must return each field in the correspondingly named response field. Eco is \
         served by a loopback HTTP/1.1 responder (real sockets, content-length / chunked / close-delimited / gzip)"
            .into()
    }
    fn assumptions(&self) -> Vec<String> {
        vec![
            "FFOW/Savage2/JC2-MP layouts per node-gamedig; Mindustry per ArcNetProvider/NetworkIO; Eco per the /frontpage JSON".into(),
            "Eco runs over real loopback sockets: the HTTP responder thread is the only uncontrolled scheduling, and the exchange is strictly request/response".into(),
        ]
    }
    fn run_case(&self, tier: Tier, idx: usize, ctx: &mut Ctx) {
        let case = cases(tier)[idx].clone();
        match case.what.clone() {
            What::Ffow { fragments, rounds } => {
                explore_decode(
                    ctx,
                    case.bound,
                    "ffow",
                    gen_ffow,
                    move |s| Box::new(FfowServer::new(s.clone(), fragments, rounds)),
                    || ffow::query(&IP4, Some(PORT)),
                    |s| s.expected(),
                    |t| t,
                );
            }
            What::Savage2 => {
                explore_decode(
                    ctx,
                    case.bound,
                    "savage2",
                    gen_savage2,
                    |s| Box::new(Savage2Server { state: s.clone() }),
                    || savage2::query(&IP4, Some(PORT)),
                    |s| s.expected(),
                    |t| t,
                );
            }
            What::Jc2m => {
                explore_decode(
                    ctx,
                    case.bound,
                    "jc2m",
                    |c| gen_jc2m(c, &[2, 0, 1, 100]),
                    |s| {
                        let dummy = Gs3State {
                            hostname: String::new(),
                            mapname: String::new(),
                            gametype: String::new(),
                            gamever: String::new(),
                            password: String::new(),
                            maxplayers: 0,
                            minplayers: None,
                            numplayers: None,
                            tournament: None,
                            extra: vec![],
                            players: vec![],
                            teams: vec![],
                            challenge: s.challenge.clone(),
                        };
                        let mut srv = Gs3Server::new(dummy, vec![]);
                        srv.payload = [0xFF, 0xFF, 0xFF, 0x02];
                        srv.body_override = Some(vec![s.packet()]);
                        Box::new(srv)
                    },
                    || jc2m::query(&IP4, Some(PORT)),
                    |s| s.expected(),
                    |t| t,
                );
            }
            What::Mindustry => {
                explore_decode(
                    ctx,
                    case.bound,
                    "mindustry",
                    gen_mindustry,
                    |s| Box::new(MindustryServer { state: s.clone() }),
                    || mindustry::query(&IP4, Some(PORT), &None),
                    |s| s.expected(),
                    |t| t,
                );
            }
            What::TheShip { protocol7 } => {
                explore_decode(
                    ctx,
                    case.bound,
                    "theship",
                    move |c| {
                        let mut s = rv::gen_state(c, rv::Layout::Ship, Some(0xF1), 2400, (b'd', b'l'), &[2, 0, 1, 40], &[2, 0, 1, 30]);
                        // the wrapper checks the app id: a Ship server reports 2400, in the 16-bit field and in the low 24 bits
                        // of the 64-bit game id (whose upper bits carry the id's kind and a mod id)
                        s.info.appid = 2400;
                        if let Some(e) = s.info.edf.as_mut() {
                            e.game_id = Some(crate::rsm::pick(c, &[2400u64, (1 << 24) | 2400, (0xDEAD_BEEF << 32) | (0x7F << 24) | 2400]));
                        }
                        if protocol7 {
                            s.info.protocol = 7;
                        }
                        s
                    },
                    move |s| {
                        let mut t = auto_transport(s, false);
                        if protocol7 {
                            // (an old server splits at a small size: players and rules arrive in two fragments each, with the size field)
                            let pl = rv::players_body(&s.players).len();
                            let rl = rv::rules_body(&s.rules).len();
                            if pl > 8 {
                                t.players = rv::Framing::Source { cuts: crate::rsm::even_cuts(pl, 2), compressed: false, size_field: true, exact_size: true, id: 2 };
                            }
                            if rl > 8 {
                                t.rules = rv::Framing::Source { cuts: crate::rsm::even_cuts(rl, 2), compressed: false, size_field: true, exact_size: true, id: 3 };
                            }
                        }
                        Box::new(rv::ValveServer::new(s.clone(), t))
                    },
                    || theship::query(&IP4, Some(PORT)),
                    expected_ship,
                    |t| t,
                );
            }
            What::Battalion { overrides, contrary } => {
                explore_decode(
                    ctx,
                    case.bound,
                    "battalion1944",
                    move |c| {
                        let mut s = rv::gen_state(c, rv::Layout::Source, Some(0xB1), 0, (b'd', b'w'), &[2, 0, 1], &[2, 0]);
                        // the app id (489 940) is only expressible through the 64-bit game id
                        // (only the low 24 bits of a game id are the app id: the byte above them is the id's kind - 1 for a mod -
                        // and the upper half a mod id)
                        if let Some(e) = s.info.edf.as_mut() {
                            e.game_id = Some(crate::rsm::pick(c, &[489_940u64, (1 << 24) | 489_940, (0xDEAD_BEEF << 32) | 489_940, (0xDEAD_BEEF << 32) | (0x7F << 24) | 489_940]));
                        }
                        let vals = [
                            crate::rsm::pick(c, &["16", "0", "255"]).to_string(),
                            crate::rsm::pick(c, &["5", "0", "255"]).to_string(),
                            crate::rsm::pick(c, if contrary { &["N", "Y", ""] } else { &["Y", "N", ""] }).to_string(),
                            crate::rsm::pick_str(c, "Battalion override name"),
                            crate::rsm::pick_str(c, "Domination"),
                            crate::rsm::pick_str(c, "Coastal"),
                        ];
                        if contrary {
                            s.info.visibility = 1;
                        }
                        for (i, k) in BAT_KEYS.iter().enumerate() {
                            if overrides & (1 << i) != 0 {
                                s.rules.push((k.to_string(), vals[i].clone()));
                            }
                        }
                        s
                    },
                    |s| Box::new(rv::ValveServer::new(s.clone(), auto_transport(s, false))),
                    || battalion1944::query(&IP4, Some(PORT)),
                    expected_battalion,
                    |t| t,
                );
            }
            What::Eco { mode } => super::eco::run_eco_case(ctx, case.bound, mode),
        }
    }
}

/// Replies that exceed the MTU are split, as a real server would.
pub fn auto_transport(s: &rv::State, gold: bool) -> rv::Transport {
    let fr = |len: usize, id: u32| -> rv::Framing {
        if len <= 1200 {
            rv::Framing::Single
        } else {
            let k = len.div_ceil(1200);
            if gold {
                rv::Framing::Gold { cuts: crate::rsm::even_cuts(len, k.min(15)), id }
            } else {
                rv::Framing::Source { cuts: crate::rsm::even_cuts(len, k), compressed: false, size_field: true, exact_size: false, id }
            }
        }
    };
    rv::Transport {
        info: fr(rv::info_body(&s.info, false).len(), 1),
        players: fr(rv::players_body(&s.players).len(), 2),
        rules: fr(rv::rules_body(&s.rules).len(), 3),
        ..Default::default()
    }
}

fn expected_ship(s: &rv::State) -> theship::Response {
    let e = rv::expected(s, false, &valve::Engine::new(2400), true, true);
    let ed = e.info.extra_data.clone();
    let ship = e.info.the_ship.unwrap();
    theship::Response {
        protocol_version: e.info.protocol_version,
        name: e.info.name,
        map: e.info.map,
        game_mode: e.info.game_mode,
        game_version: e.info.game_version,
        players: e
            .players
            .unwrap()
            .iter()
            .map(|p| {
                theship::TheShipPlayer {
                    name: p.name.clone(),
                    score: p.score,
                    duration: p.duration,
                    deaths: p.deaths.unwrap(),
                    money: p.money.unwrap(),
                }
            })
            .collect(),
        players_online: e.info.players_online,
        players_maximum: e.info.players_maximum,
        players_bots: e.info.players_bots,
        server_type: e.info.server_type,
        has_password: e.info.has_password,
        vac_secured: e.info.vac_secured,
        port: ed.as_ref().and_then(|d| d.port),
        steam_id: ed.as_ref().and_then(|d| d.steam_id),
        tv_port: ed.as_ref().and_then(|d| d.tv_port),
        tv_name: ed.as_ref().and_then(|d| d.tv_name.clone()),
        keywords: ed.as_ref().and_then(|d| d.keywords.clone()),
        rules: e.rules.unwrap(),
        mode: ship.mode,
        witnesses: ship.witnesses,
        duration: ship.duration,
    }
}

fn expected_battalion(s: &rv::State) -> valve::game::Response {
    let mut e = rv::expected(s, false, &valve::Engine::new(489_940), true, true);
    let mut rules: HashMap<String, String> = e.rules.take().unwrap();
    if let Some(v) = rules.remove("bat_max_players_i") {
        e.info.players_maximum = v.parse().unwrap();
    }
    if let Some(v) = rules.remove("bat_player_count_s") {
        e.info.players_online = v.parse().unwrap();
    }
    if let Some(v) = rules.remove("bat_has_password_s") {
        e.info.has_password = v == "Y";
    }
    if let Some(v) = rules.remove("bat_name_s") {
        e.info.name = v;
    }
    if let Some(v) = rules.remove("bat_gamemode_s") {
        e.info.game_mode = v;
    }
    rules.remove("bat_map_s");
    e.rules = Some(rules);
    // (field-by-field reference conversion, not the one under test)
    super::c02::reference_game_response(&e)
}
