//! C09 — requests are the protocol's, go to the right port, and echo challenges.

use super::c02::EngineCfg;
use super::common::*;
use crate::explore::{explore, ExploreCfg};
use crate::prop::Prop;
use crate::report::{Ctx, Tier};
use crate::rsm::gamespy::*;
use crate::rsm::minecraft::*;
use crate::rsm::misc::*;
use crate::rsm::quake::Ver;
use crate::rsm::unreal2::u2_request;
use crate::rsm::valve as rv;
use crate::run::{run_query, Exec};
use crate::targets::*;
use crate::vnet::{render_log, Chooser, Faithful, WireEvent};
use gamedig::protocols::types::{GatherToggle, TimeoutSettings};
use gamedig::protocols::valve;
use serde_json::Value;
use std::net::{IpAddr, Ipv6Addr, SocketAddr};
use std::sync::OnceLock;

pub const IP6: IpAddr = IpAddr::V6(Ipv6Addr::new(0x2001, 0xdb8, 0, 0, 0, 0, 0, 0x77));

#[derive(Clone, Debug, PartialEq)]
pub struct ConnExpect {
    pub tcp: bool,
    pub addr: SocketAddr,
    pub sends: Vec<Vec<u8>>,
}

/// What the protocol prescribes against the seed server of `family`.
pub fn expected_exchange(family: Family, players: GatherToggle, rules: GatherToggle, ip: IpAddr, port: u16, bedrock_port: u16) -> Vec<ConnExpect> {
    let a = SocketAddr::new(ip, port);
    let udp = |sends: Vec<Vec<u8>>| vec![ConnExpect { tcp: false, addr: a, sends }];
    match family {
        Family::Valve(e) => {
            let t = valve_seed_transport(e, &valve_seed(e));
            let mut sends = Vec::new();
            let mut next = 0usize;
            let mut kind = |k: u8, rounds: usize, sends: &mut Vec<Vec<u8>>| {
                let base: Vec<u8> = if k == 0x54 { rv::INFO_PAYLOAD.to_vec() } else { vec![0xFF; 4] };
                let mut first = vec![0xFF, 0xFF, 0xFF, 0xFF, k];
                first.extend_from_slice(&base);
                sends.push(first);
                for _ in 0 .. rounds {
                    let c = t.challenges[next % t.challenges.len()];
                    next += 1;
                    let mut r = vec![0xFF, 0xFF, 0xFF, 0xFF, k];
                    if k == 0x54 {
                        r.extend_from_slice(rv::INFO_PAYLOAD);
                    }
                    r.extend_from_slice(&c);
                    sends.push(r);
                }
            };
            kind(0x54, t.rounds[0], &mut sends);
            if players != GatherToggle::Skip {
                kind(0x55, t.rounds[1], &mut sends);
            }
            if rules != GatherToggle::Skip {
                kind(0x56, t.rounds[2], &mut sends);
            }
            udp(sends)
        }
        Family::Gs1 => udp(vec![GS1_REQUEST.to_vec()]),
        Family::Gs2 => udp(vec![GS2_REQUEST.to_vec()]),
        Family::Gs3 => udp(vec![GS3_HANDSHAKE.to_vec(), gs3_data_request(&gs3_seed().challenge, [0xFF, 0xFF, 0xFF, 0x01])]),
        Family::Jc2m => udp(vec![GS3_HANDSHAKE.to_vec(), gs3_data_request("9182736", [0xFF, 0xFF, 0xFF, 0x02])]),
        Family::Quake(v) => udp(vec![v.request()]),
        Family::Unreal2 => {
            let mut s = vec![u2_request(0)];
            if rules != GatherToggle::Skip {
                s.push(u2_request(1));
            }
            if players != GatherToggle::Skip {
                s.push(u2_request(2));
            }
            udp(s)
        }
        Family::Java => vec![ConnExpect { tcp: true, addr: a, sends: java_requests("gamedig", -1, port) }],
        Family::Bedrock => udp(vec![bedrock_request()]),
        Family::Legacy(k) => vec![ConnExpect { tcp: true, addr: a, sends: vec![legacy_request(k)] }],
        Family::McLegacyAuto => {
            [LegacyKind::V1_6, LegacyKind::V1_4, LegacyKind::VB1_8]
                .iter()
                .map(|k| ConnExpect { tcp: true, addr: a, sends: vec![legacy_request(*k)] })
                .collect()
        }
        Family::McAuto => {
            let mut v = vec![
                ConnExpect { tcp: true, addr: a, sends: java_requests("gamedig", -1, port) },
                ConnExpect { tcp: false, addr: SocketAddr::new(ip, bedrock_port), sends: vec![bedrock_request()] },
            ];
            for k in [LegacyKind::V1_6, LegacyKind::V1_4, LegacyKind::VB1_8] {
                v.push(ConnExpect { tcp: true, addr: a, sends: vec![legacy_request(k)] });
            }
            v
        }
        Family::Ffow => {
            let mut second = vec![0xFF, 0xFF, 0xFF, 0xFF, 0x46];
            second.extend_from_slice(&[0x11, 0x00, 0xFF, 0x5C]);
            udp(vec![FFOW_REQUEST.to_vec(), second])
        }
        Family::Savage2 => udp(vec![vec![0x01]]),
        Family::Mindustry => udp(vec![MINDUSTRY_REQUEST.to_vec()]),
        Family::Master => vec![],
    }
}

pub fn observed_exchange(log: &[WireEvent]) -> Vec<ConnExpect> {
    let mut v: Vec<ConnExpect> = Vec::new();
    for e in log {
        match e {
            WireEvent::Open { tcp, addr, .. } => v.push(ConnExpect { tcp: *tcp, addr: *addr, sends: vec![] }),
            WireEvent::Send { conn, bytes, .. } => v[*conn as usize].sends.push(bytes.clone()),
            _ => {}
        }
    }
    v
}

fn render_exchange(x: &[ConnExpect]) -> String {
    x.iter()
        .map(|c| {
            format!(
                "{} {} [{}]",
                if c.tcp { "tcp" } else { "udp" },
                c.addr,
                c.sends.iter().map(|s| crate::vnet::hex(s)).collect::<Vec<_>>().join(", ")
            )
        })
        .collect::<Vec<_>>()
        .join(" ; ")
}

#[derive(Clone)]
enum What {
    /// generic dispatch of a GAMES entry
    /// (address kind: 0 IPv4, 1 a global IPv6 address, 2 an IPv6 address of the ::/96 block - the loopback ::1)
    Game { id: &'static str, port: Option<u16>, v6: u8 },
    /// protocol-level target (index into protocol_targets())
    Protocol(usize),
    /// Valve challenge values lo..hi of stratum s on all three requests
    ValveChallenges { stratum: u8, lo: u32, hi: u32 },
    Gs3Challenges { lo: i64, hi: i64, special: bool },
    JavaHandshake,
    /// every protocol-level entry point in ONE process, in list order and then in reverse (or the other way round): the
    /// exchange of a query must not depend on which queries the process made before it. These are the first cases of the
    /// list, so each starts in a fresh worker process.
    Sequence { reverse_first: bool },
    /// the Minecraft fallback chains against a server on which only some variants answer: the chain must stop with the first
    /// step that is answered (nothing is sent after it)
    McChain { entry: u8, bits: u8 },
    /// Valve: 0..4 challenges in a row per request: every request carries exactly the challenge issued last, nothing of the
    /// earlier ones
    ValveChallengeRows,
    /// the Minecraft module's single-variant wrappers (which resolve an omitted port themselves): port given / omitted x
    /// address kinds; the default ports are the ones of the definitions table, written out here (25565, Bedrock 19132)
    McModule { which: u8, port: Option<u16>, v6: u8 },
}

#[derive(Clone)]
struct Case {
    label: String,
    what: What,
}

const SYMS: [u8; 12] = [0x00, 0x01, 0x0A, 0x22, 0x41, 0x49, 0x5C, 0x7F, 0x80, 0xFE, 0xFF, 0x54];

fn build(tier: Tier) -> Vec<Case> {
    let mut v = Vec::new();
    v.push(Case { label: "all protocol entry points in one fresh process: list order, then reverse order".into(), what: What::Sequence { reverse_first: false } });
    v.push(Case { label: "all protocol entry points in one fresh process: reverse order, then list order".into(), what: What::Sequence { reverse_first: true } });
    for entry in 0 .. 5u8 {
        for bits in [1u8, 2, 4, 8, 16, 2 | 4 | 8 | 16, 4 | 16, 8 | 16] {
            let legacy_only = entry >= 3;
            if legacy_only && bits & (4 | 8 | 16) == 0 {
                continue;
            }
            v.push(Case {
                label: format!(
                    "minecraft fallback chain via {} against a server answering only {}",
                    ["protocol::query", "games::minecraft::query", "the definition-driven 'minecraft' entry", "protocol::query_legacy", "games::minecraft::query_legacy"][entry as usize],
                    [(1u8, "java"), (2, "bedrock"), (4, "legacy 1.6"), (8, "legacy 1.4"), (16, "beta 1.8")].iter().filter(|(b, _)| bits & b != 0).map(|(_, n)| *n).collect::<Vec<_>>().join("+")
                ),
                what: What::McChain { entry, bits },
            });
        }
    }
    let mut ids: Vec<&&str> = gamedig::GAMES.keys().collect();
    ids.sort();
    for id in ids {
        for port in [None, Some(PORT)] {
            for v6 in [0u8, 1, 2] {
                v.push(Case {
                    label: format!("generic dispatch '{id}' port={port:?} {}", ["ipv4", "ipv6", "ipv6 ::1"][v6 as usize]),
                    what: What::Game { id, port, v6 },
                });
            }
        }
    }
    for (i, t) in protocol_targets().iter().enumerate() {
        if t.family == Family::Master {
            continue;
        }
        v.push(Case { label: format!("{} (wire log vs protocol)", t.name), what: What::Protocol(i) });
    }
    // challenge strata: 12^4 symbol products, 0x0000xxxx, 0xxxxx0000 (+ thorough: 0x00xxxx00 and xx0000xx)
    let chunk = 2048u32;
    let mut lo = 0;
    while lo < 20_736 {
        v.push(Case { label: format!("valve challenges 12-symbol product {lo}..{}", (lo + chunk).min(20_736)), what: What::ValveChallenges { stratum: 0, lo, hi: (lo + chunk).min(20_736) } });
        lo += chunk;
    }
    let strata: &[u8] = if tier.is_thorough() { &[1, 2, 3, 4] } else { &[1, 2] };
    for s in strata {
        let mut lo = 0;
        while lo < 65_536 {
            v.push(Case { label: format!("valve challenges stratum {s} values {lo}..{}", lo + 4096), what: What::ValveChallenges { stratum: *s, lo, hi: lo + 4096 } });
            lo += 4096;
        }
    }
    let mut lo = -4096i64;
    while lo <= 4096 {
        v.push(Case { label: format!("gamespy3 challenge texts {lo}..{}", (lo + 1024).min(4097)), what: What::Gs3Challenges { lo, hi: (lo + 1024).min(4097), special: false } });
        lo += 1024;
    }
    v.push(Case { label: "gamespy3 challenge texts: i32 extremes and +-2^k".into(), what: What::Gs3Challenges { lo: 0, hi: 0, special: true } });
    for which in 0 .. 5u8 {
        for port in [None, Some(PORT)] {
            for v6 in [0u8, 1, 2] {
                v.push(Case {
                    label: format!("games::minecraft::{} port={port:?} {}", ["query_java", "query_bedrock", "query_legacy_specific(1.6)", "query_legacy_specific(1.4)", "query_legacy_specific(beta 1.8)"][which as usize], ["ipv4", "ipv6", "ipv6 ::1"][v6 as usize]),
                    what: What::McModule { which, port, v6 },
                });
            }
        }
    }
    v.push(Case { label: "java handshake: hostnames x protocol versions x ports".into(), what: What::JavaHandshake });
    v.push(Case { label: "valve: 0..4 challenges in a row on each of info / players / rules".into(), what: What::ValveChallengeRows });
    v
}

static QUICK: OnceLock<Vec<Case>> = OnceLock::new();
static THOROUGH: OnceLock<Vec<Case>> = OnceLock::new();
fn cases(tier: Tier) -> &'static Vec<Case> {
    match tier {
        Tier::Quick => QUICK.get_or_init(|| build(Tier::Quick)),
        Tier::Thorough => THOROUGH.get_or_init(|| build(Tier::Thorough)),
    }
}

fn challenge_value(stratum: u8, i: u32) -> [u8; 4] {
    match stratum {
        0 => {
            let mut n = i;
            let mut b = [0u8; 4];
            for x in b.iter_mut() {
                *x = SYMS[(n % 12) as usize];
                n /= 12;
            }
            b
        }
        1 => [(i & 0xff) as u8, (i >> 8) as u8, 0, 0],
        2 => [0, 0, (i & 0xff) as u8, (i >> 8) as u8],
        3 => [0, (i & 0xff) as u8, (i >> 8) as u8, 0],
        _ => [(i & 0xff) as u8, 0, 0, (i >> 8) as u8],
    }
}

fn compare(ctx: &mut Ctx, x: &Exec<Value>, expected: &[ConnExpect], tag: &str, label: &str) {
    let got = observed_exchange(&x.log);
    // the client may stop early only if the query failed; for a successful query the exchange must be exactly the expected one
    let ok = if x.outcome.ok().is_some() { got == expected } else { got.len() <= expected.len() && got.iter().zip(expected).all(|(g, e)| g.tcp == e.tcp && g.addr == e.addr && e.sends.starts_with(&g.sends)) };
    if ok {
        ctx.sample(serde_json::json!({"case": label, "exchange": render_exchange(&got)}));
        return;
    }
    // classify: destination vs bytes
    let mut kind = "request-bytes";
    if got.len() != expected.len() {
        kind = "connections";
    }
    for (g, e) in got.iter().zip(expected) {
        if g.addr != e.addr || g.tcp != e.tcp {
            kind = "destination";
            break;
        }
    }
    ctx.violation(
        format!("wire-{kind}:{tag}"),
        &x.choices(),
        format!("the emitted requests differ from the protocol's ({kind}); query outcome {}", x.outcome.class()),
        render_exchange(&got),
        render_exchange(expected),
        render_log(&x.log),
    );
}

pub fn family_tag(f: Family) -> String {
    match f {
        Family::Valve(e) if e.gold() => "valve-goldsrc".into(),
        Family::Valve(_) => "valve".into(),
        other => format!("{other:?}").to_lowercase(),
    }
}

pub struct C09;

impl Prop for C09 {
    fn id(&self) -> &'static str { "C09" }
    fn n_cases(&self, tier: Tier) -> usize { cases(tier).len() }
    fn case_label(&self, tier: Tier, idx: usize) -> String { cases(tier)[idx].label.clone() }
    fn rule(&self) -> String {
        "(a) every GAMES entry x port given/omitted x {IPv4, a global IPv6 address, ::1} through the generic dispatch, and every protocol-level entry \
         point: the complete wire log (connections opened with transport and destination, every request's bytes, in order) \
         must equal what the protocol prescribes against the reference server (nothing else is sent). (b) Valve challenge \
         values: all 12^4 values over {00,01,0A,22,41,49,5C,7F,80,FE,FF,54} plus all 0x0000xxxx and 0xxxxx0000 (thorough: also \
         0x00xxxx00 and 0xxx0000xx), each issued on info, players and rules: the next request must carry exactly that value. \
         (c) GameSpy 3 challenge texts: every integer in [-4096, 4096], i32 extremes and +-2^k: request carries the i32 big-endian, \
         nothing for 0. (d) Java handshake: hostnames {'', 'a', 255 bytes, non-ASCII} x protocol versions over the i32 alphabet x \
         ports over the u16 alphabet, plus protocol versions at every 7-bit VarInt group boundary +-1 and every host-name length 0..=300: \
         varint framing, host name, big-endian port, next state 1, status request, ping. (e) 0..4 Valve challenges in a row on each request x 2 challenge lists x 2 engines. \
         (f) the Minecraft fallback chains (5 entry points) against servers on which only some variants answer: the chain stops at the answering step. \
         (h) the Minecraft module's single-variant wrappers (query_java, query_bedrock, query_legacy_specific x 3) x port given/omitted x three address kinds: destination = the given port or 25565 / 19132. (g) every protocol entry point in ONE fresh process in list order and back (and the reverse): same exchange, same answer the second time"
            .into()
    }
    fn assumptions(&self) -> Vec<String> {
        vec!["request layouts per the Valve wiki, node-gamedig and wiki.vg (DESIGN Appendix A)".into(), "the full 2^32 Valve challenge sweep is not run (stated opt-in in DESIGN); strata above are complete".into()]
    }
    fn run_case(&self, tier: Tier, idx: usize, ctx: &mut Ctx) {
        let case = cases(tier)[idx].clone();
        match case.what.clone() {
            What::Game { id, port, v6 } => {
                let game = gamedig::GAMES.get(id).unwrap();
                let Some(fam) = family_of_game(game) else {
                    ctx.note("skipped_http_game", 1);
                    ctx.counters.evaluations += 1;
                    return;
                };
                let ip = match v6 { 0 => IP4, 1 => IP6, _ => IpAddr::V6(Ipv6Addr::LOCALHOST) };
                let server = server_for_game(game).unwrap();
                explore(
                    ctx,
                    &ExploreCfg::bound(0),
                    |prefix| {
                        let x = run_query(server(), Box::new(Faithful), Chooser::new(prefix), || {
                            gamedig::query_with_timeout_and_extra_settings(game, &ip, port, None, None).map(|r| to_json(&r.as_json()))
                        });
                        (x, ())
                    },
                    |ctx, x, _| {
                        let rs = &game.request_settings;
                        let (p, r) = match fam {
                            Family::Valve(_) => (
                                rs.gather_players.unwrap_or(GatherToggle::Try),
                                rs.gather_rules.unwrap_or(GatherToggle::Try),
                            ),
                            // any non-Skip toggle sends the request; which one applies is C14's subject
                            _ => (GatherToggle::Try, GatherToggle::Enforce),
                        };
                        let eff_port = port.unwrap_or(game.default_port);
                        // the definition-driven auto-detecting Minecraft entry uses one port for every variant
                        let exp = expected_exchange(fam, p, r, ip, eff_port, eff_port);
                        compare(ctx, x, &exp, &family_tag(fam), &case.label);
                    },
                );
            }
            What::McModule { which, port, v6 } => {
                use gamedig::games::minecraft as mc;
                let ip = match v6 { 0 => IP4, 1 => IP6, _ => IpAddr::V6(Ipv6Addr::LOCALHOST) };
                let fam = match which {
                    0 => Family::Java,
                    1 => Family::Bedrock,
                    2 => Family::Legacy(LegacyKind::V1_6),
                    3 => Family::Legacy(LegacyKind::V1_4),
                    _ => Family::Legacy(LegacyKind::VB1_8),
                };
                let server = server_for(fam);
                let x = run_query(server(), Box::new(Faithful), Chooser::new(&[]), || match which {
                    0 => mc::query_java(&ip, port, None).map(|r| to_json(&r)),
                    1 => mc::query_bedrock(&ip, port).map(|r| to_json(&r)),
                    2 => mc::query_legacy_specific(mc::LegacyGroup::V1_6, &ip, port).map(|r| to_json(&r)),
                    3 => mc::query_legacy_specific(mc::LegacyGroup::V1_4, &ip, port).map(|r| to_json(&r)),
                    _ => mc::query_legacy_specific(mc::LegacyGroup::VB1_8, &ip, port).map(|r| to_json(&r)),
                });
                ctx.account(&x, 0);
                let eff_port = port.unwrap_or(if which == 1 { 19132 } else { 25565 });
                let exp = expected_exchange(fam, GatherToggle::Try, GatherToggle::Try, ip, eff_port, eff_port);
                ctx.distinct_key(&(case.label.clone(), x.outcome.class()));
                compare(ctx, &x, &exp, &format!("{}:module", family_tag(fam)), &case.label);
            }
            What::Protocol(i) => {
                let t = protocol_targets()[i].clone();
                explore(
                    ctx,
                    &ExploreCfg::bound(0),
                    |prefix| (run_query((t.server)(), Box::new(Faithful), Chooser::new(prefix), || (t.call)(None)), ()),
                    |ctx, x, _| {
                        let (p, r) = t.toggles.unwrap_or((GatherToggle::Try, GatherToggle::Try));
                        let fam = if t.name.starts_with("jc2m") { Family::Jc2m } else { t.family };
                        let mut exp = expected_exchange(fam, p, r, IP4, PORT, PORT);
                        if t.name.starts_with("battalion1944") {
                            // default gather settings: players and rules requested
                            exp = expected_exchange(fam, GatherToggle::Try, GatherToggle::Try, IP4, PORT, PORT);
                        }
                        compare(ctx, x, &exp, &family_tag(fam), &case.label);
                    },
                );
                // re-attempted requests are requests too: with one retry allowed and the k-th receive of the exchange timing
                // out (every k), each datagram sent must still be one of the datagrams the protocol defines for this exchange
                if t.honours_timeout {
                    let (p, r) = t.toggles.unwrap_or((GatherToggle::Try, GatherToggle::Try));
                    let fam = if t.name.starts_with("jc2m") { Family::Jc2m } else { t.family };
                    let exp = if t.name.starts_with("battalion1944") { expected_exchange(fam, GatherToggle::Try, GatherToggle::Try, IP4, PORT, PORT) } else { expected_exchange(fam, p, r, IP4, PORT, PORT) };
                    let allowed: Vec<&Vec<u8>> = exp.iter().flat_map(|c| c.sends.iter()).collect();
                    let base = run_query((t.server)(), Box::new(Faithful), Chooser::new(&[]), || (t.call)(super::c01::timeouts(1)));
                    let n_recv = base.log.iter().filter(|e| matches!(e, WireEvent::Recv { .. })).count().min(10);
                    for k in 0 .. n_recv {
                        let x = run_query((t.server)(), Box::new(TimeoutAt { k }), Chooser::new(&[]), || (t.call)(super::c01::timeouts(1)));
                        ctx.account(&x, 0);
                        let sends: Vec<Vec<u8>> = x.log.iter().filter_map(|e| if let WireEvent::Send { bytes, .. } = e { Some(bytes.clone()) } else { None }).collect();
                        ctx.distinct_key(&(t.name.clone(), k, sends.len()));
                        if let Some(bad) = sends.iter().find(|d| !allowed.iter().any(|a| *a == *d)) {
                            ctx.violation(
                                format!("retried-request-bytes:{}", family_tag(fam)),
                                &[k as u32],
                                format!("{}: with retries = 1 and receive {k} timing out, a datagram was sent that the protocol does not define for this exchange", case.label),
                                crate::vnet::hex(bad),
                                format!("one of {}", render_exchange(&exp)),
                                render_log(&x.log),
                            );
                        }
                    }
                }
            }
            What::Sequence { reverse_first } => {
                let targets: Vec<Target> = protocol_targets().into_iter().filter(|t| t.family != Family::Master).collect();
                let n = targets.len();
                let mut order: Vec<usize> = (0 .. n).collect();
                if reverse_first {
                    order.reverse();
                }
                let back: Vec<usize> = order.iter().rev().copied().collect();
                order.extend(back);
                // arrays are compared as multisets (sets and maps inside the responses have no fixed iteration order)
                fn canon(v: &Value) -> Value {
                    match v {
                        Value::Array(a) => {
                            let mut items: Vec<Value> = a.iter().map(canon).collect();
                            items.sort_by_key(|x| x.to_string());
                            Value::Array(items)
                        }
                        Value::Object(m) => Value::Object(m.iter().map(|(k, x)| (k.clone(), canon(x))).collect()),
                        other => other.clone(),
                    }
                }
                let mut first: Vec<Option<String>> = vec![None; n];
                for (pos, i) in order.iter().enumerate() {
                    let t = &targets[*i];
                    crate::crumb::mark(ctx.case, &[pos as u32]);
                    let x = run_query((t.server)(), Box::new(Faithful), Chooser::new(&[]), || (t.call)(None));
                    ctx.account(&x, 0);
                    ctx.distinct_key(&(pos, t.name.clone()));
                    let (p, r) = t.toggles.unwrap_or((GatherToggle::Try, GatherToggle::Try));
                    let fam = if t.name.starts_with("jc2m") { Family::Jc2m } else { t.family };
                    let exp = if t.name.starts_with("battalion1944") { expected_exchange(fam, GatherToggle::Try, GatherToggle::Try, IP4, PORT, PORT) } else { expected_exchange(fam, p, r, IP4, PORT, PORT) };
                    compare(ctx, &x, &exp, &format!("{}:after-other-queries-in-the-same-process", family_tag(fam)), &format!("{} as query {} of the process", t.name, pos + 1));
                    let outcome = match &x.outcome {
                        crate::run::Outcome::Ok(v) => format!("Ok {}", canon(v)),
                        other => other.class(),
                    };
                    match &first[*i] {
                        None => first[*i] = Some(outcome),
                        Some(f) if *f != outcome => {
                            ctx.violation(
                                format!("same-query-different-answer-later-in-the-process:{}", family_tag(fam)),
                                &[pos as u32],
                                format!("{}: query {} of the process returns something else than the same query did earlier in the process, against the same server", t.name, pos + 1),
                                clip(&outcome, 600),
                                clip(f, 600),
                                render_log(&x.log),
                            );
                        }
                        Some(_) => {}
                    }
                }
            }
            What::McChain { entry, bits } => {
                use gamedig::games::minecraft as mc;
                let x = run_query(mc_server(bits), Box::new(Faithful), Chooser::new(&[]), || match entry {
                    0 => mc::protocol::query(&addr(), None, None).map(|r| to_json(&r)),
                    1 => mc::query(&IP4, Some(PORT)).map(|r| to_json(&r)),
                    2 => gamedig::query_with_timeout_and_extra_settings(gamedig::GAMES.get("minecraft").unwrap(), &IP4, Some(PORT), None, None).map(|r| to_json(&r.as_json())),
                    3 => mc::protocol::query_legacy(&addr(), None).map(|r| to_json(&r)),
                    _ => mc::query_legacy(&IP4, Some(PORT)).map(|r| to_json(&r)),
                });
                ctx.account(&x, 0);
                ctx.distinct_key(&(entry, bits));
                let fam = if entry >= 3 { Family::McLegacyAuto } else { Family::McAuto };
                let full = expected_exchange(fam, GatherToggle::Try, GatherToggle::Try, IP4, PORT, PORT);
                // steps of the chain in order, with the variant bit each one is answered by
                let step_bits: &[u8] = if entry >= 3 { &[4, 8, 16] } else { &[1, 2, 4, 8, 16] };
                let stop = step_bits.iter().position(|b| bits & b != 0).map_or(full.len(), |p| p + 1);
                let exp: Vec<ConnExpect> = full.into_iter().take(stop).collect();
                if x.outcome.ok().is_none() {
                    ctx.violation(format!("mc-chain-fails:{}", family_tag(fam)), &[], format!("{}: a variant answers but the query fails", case.label), x.outcome.describe_json(), "Ok(..)", render_log(&x.log));
                }
                compare(ctx, &x, &exp, &format!("{}:chain-stops-at-the-answering-step", family_tag(fam)), &case.label);
            }
            What::ValveChallengeRows => {
                let lists: [Vec<[u8; 4]>; 2] = [
                    vec![[0x4b, 0xa1, 0xd5, 0x22], [0x0a, 0x00, 0xff, 0x5c], [0x01, 0x02, 0x03, 0x04], [0xff, 0xff, 0xff, 0xff], [0x00, 0x00, 0x00, 0x00]],
                    vec![[0x11, 0x22, 0x33, 0x44], [0x11, 0x22, 0x33, 0x44], [0x54, 0x53, 0x6f, 0x75]],
                ];
                for e in [EngineCfg::App440, EngineCfg::GoldFalse] {
                    for (li, list) in lists.iter().enumerate() {
                        for r0 in 0 ..= 4usize {
                            for r1 in 0 ..= 4usize {
                                for r2 in 0 ..= 4usize {
                                    let s = valve_seed(e);
                                    let t = rv::Transport { rounds: [r0, r1, r2], challenges: list.clone(), ..Default::default() };
                                    let gs = valve::GatheringSettings { players: GatherToggle::Enforce, rules: GatherToggle::Enforce, check_app_id: false };
                                    let x = run_query(Box::new(rv::ValveServer::new(s, t)), Box::new(Faithful), Chooser::new(&[]), || {
                                        valve::query(&addr(), e.engine(), Some(gs), None).map(|r| to_json(&r))
                                    });
                                    ctx.account(&x, 0);
                                    ctx.distinct_key(&(e, li, r0, r1, r2));
                                    let mut exp: Vec<Vec<u8>> = Vec::new();
                                    let mut next = 0usize;
                                    for (k, rounds) in [(0x54u8, r0), (0x55, r1), (0x56, r2)] {
                                        let mut first = vec![0xFF, 0xFF, 0xFF, 0xFF, k];
                                        first.extend_from_slice(if k == 0x54 { rv::INFO_PAYLOAD } else { &[0xFF; 4] });
                                        exp.push(first);
                                        for _ in 0 .. rounds {
                                            let c = list[next % list.len()];
                                            next += 1;
                                            let mut again = vec![0xFF, 0xFF, 0xFF, 0xFF, k];
                                            if k == 0x54 {
                                                again.extend_from_slice(rv::INFO_PAYLOAD);
                                            }
                                            again.extend_from_slice(&c);
                                            exp.push(again);
                                        }
                                    }
                                    let got: Vec<Vec<u8>> = crate::vnet::all_sends(&x.log).iter().map(|s| s.1.to_vec()).collect();
                                    if got != exp || x.outcome.ok().is_none() {
                                        ctx.violation(
                                            "valve-challenges-in-a-row",
                                            &[li as u32, r0 as u32, r1 as u32, r2 as u32],
                                            format!("{e:?}: {r0}/{r1}/{r2} challenges in a row on info/players/rules (challenge list {li}): the requests differ from the protocol's"),
                                            format!("{} ; outcome {}", got.iter().map(|g| crate::vnet::hex(g)).collect::<Vec<_>>().join(", "), x.outcome.class()),
                                            exp.iter().map(|g| crate::vnet::hex(g)).collect::<Vec<_>>().join(", "),
                                            render_log(&x.log),
                                        );
                                    }
                                }
                            }
                        }
                    }
                }
                ctx.sample(serde_json::json!({"case": case.label, "combinations": 2 * 2 * 125}));
            }
            What::ValveChallenges { stratum, lo, hi } => {
                for i in lo .. hi {
                    let c = challenge_value(stratum, i);
                    ctx.replay = ctx.replay.take();
                    let e = EngineCfg::App440;
                    let s = valve_seed(e);
                    let t = rv::Transport { rounds: [1, 1, 1], challenges: vec![c], ..Default::default() };
                    let gs = valve::GatheringSettings { players: GatherToggle::Enforce, rules: GatherToggle::Enforce, check_app_id: false };
                    let x = run_query(Box::new(rv::ValveServer::new(s, t)), Box::new(Faithful), Chooser::new(&[]), || {
                        valve::query(&addr(), e.engine(), Some(gs), None).map(|r| to_json(&r))
                    });
                    ctx.account(&x, 0);
                    ctx.distinct_key(&c);
                    let mut exp = Vec::new();
                    for k in [0x54u8, 0x55, 0x56] {
                        let mut first = vec![0xFF, 0xFF, 0xFF, 0xFF, k];
                        first.extend_from_slice(if k == 0x54 { rv::INFO_PAYLOAD } else { &[0xFF; 4] });
                        exp.push(first);
                        let mut second = vec![0xFF, 0xFF, 0xFF, 0xFF, k];
                        if k == 0x54 {
                            second.extend_from_slice(rv::INFO_PAYLOAD);
                        }
                        second.extend_from_slice(&c);
                        exp.push(second);
                    }
                    let got: Vec<Vec<u8>> = crate::vnet::all_sends(&x.log).iter().map(|s| s.1.to_vec()).collect();
                    if got != exp || x.outcome.ok().is_none() {
                        ctx.violation(
                            "valve-challenge-echo",
                            &[],
                            format!("challenge {} is not echoed exactly (stratum {stratum} index {i})", crate::vnet::hex(&c)),
                            format!("{} ; outcome {}", got.iter().map(|g| crate::vnet::hex(g)).collect::<Vec<_>>().join(", "), x.outcome.class()),
                            exp.iter().map(|g| crate::vnet::hex(g)).collect::<Vec<_>>().join(", "),
                            render_log(&x.log),
                        );
                    } else if i == lo {
                        ctx.sample(serde_json::json!({"case": case.label, "challenge": crate::vnet::hex(&c), "requests": got.len()}));
                    }
                }
            }
            What::Gs3Challenges { lo, hi, special } => {
                let mut vals: Vec<i64> = if special {
                    let mut v = vec![i32::MIN as i64, i32::MAX as i64];
                    for k in 0 .. 31 {
                        v.push(1i64 << k);
                        v.push(-(1i64 << k));
                    }
                    v
                } else {
                    (lo .. hi).collect()
                };
                vals.dedup();
                for n in vals {
                    for text in if n >= 0 && !special { vec![n.to_string()] } else { vec![n.to_string()] } {
                        let mut st = gs3_seed();
                        st.challenge = text.clone();
                        let first = st.first_data_atom();
                        let server = Gs3Server::new(st, vec![first + 3]);
                        let x = run_query(Box::new(server), Box::new(Faithful), Chooser::new(&[]), || {
                            gamedig::protocols::gamespy::three::query(&addr(), None).map(|r| to_json(&r))
                        });
                        ctx.account(&x, 0);
                        ctx.distinct_key(&n);
                        let exp = vec![GS3_HANDSHAKE.to_vec(), gs3_data_request(&text, [0xFF, 0xFF, 0xFF, 0x01])];
                        let got: Vec<Vec<u8>> = crate::vnet::all_sends(&x.log).iter().map(|s| s.1.to_vec()).collect();
                        if got != exp {
                            ctx.violation(
                                "gamespy3-challenge-echo",
                                &[],
                                format!("challenge text {text:?} is not echoed as the protocol prescribes"),
                                got.iter().map(|g| crate::vnet::hex(g)).collect::<Vec<_>>().join(", "),
                                exp.iter().map(|g| crate::vnet::hex(g)).collect::<Vec<_>>().join(", "),
                                render_log(&x.log),
                            );
                        } else if n == lo {
                            ctx.sample(serde_json::json!({"case": case.label, "challenge": text}));
                        }
                    }
                }
            }
            What::JavaHandshake => {
                let hosts = ["".to_string(), "a".to_string(), crate::rsm::long_string(255), "zürich.例え.テスト".to_string(), "mc.example.org".to_string(), crate::rsm::long_string(300), format!("{}é{}", "a".repeat(254), "b".repeat(10)), "例".repeat(100)];
                let versions = crate::rsm::i32_alts(765);
                let ports = crate::rsm::u16_alts(25565);
                for h in &hosts {
                    for pv in &versions {
                        for port in &ports {
                            let a = SocketAddr::new(IP4, *port);
                            let settings = gamedig::games::minecraft::RequestSettings { hostname: h.clone(), protocol_version: *pv };
                            let x = run_query(mc_server(1), Box::new(Faithful), Chooser::new(&[]), || {
                                gamedig::games::minecraft::protocol::query_java(&a, None, Some(settings.clone())).map(|r| to_json(&r))
                            });
                            ctx.account(&x, 0);
                            ctx.distinct_key(&(h, pv, port));
                            let exp = vec![ConnExpect { tcp: true, addr: a, sends: java_requests(h, *pv, *port) }];
                            let got = observed_exchange(&x.log);
                            if got != exp {
                                ctx.violation(
                                    "java-handshake",
                                    &[],
                                    format!("handshake for host {:?} protocol {pv} port {port} differs from the Server List Ping framing", clip(h, 40)),
                                    render_exchange(&got),
                                    render_exchange(&exp),
                                    render_log(&x.log),
                                );
                            }
                        }
                    }
                }
                // VarInt group boundaries: protocol versions at 2^(7k) - 1, 2^(7k), 2^(7k) + 1 and every host length 0..=300
                // (the host length prefix and, with it, the frame length each cross their 7-bit boundary somewhere in that range)
                let mut edge: Vec<(String, i32)> = Vec::new();
                for k in 1 ..= 4u32 {
                    for d in [-1i64, 0, 1] {
                        edge.push(("mc.example.org".to_string(), ((1i64 << (7 * k)) + d) as i32));
                    }
                }
                edge.push(("mc.example.org".to_string(), (128 << 7) + 128));
                edge.push(("mc.example.org".to_string(), -128));
                for len in 0 ..= 300usize {
                    for pv in [765, -1, 47] {
                        edge.push(("h".repeat(len), pv));
                    }
                }
                for (h, pv) in &edge {
                    let a = SocketAddr::new(IP4, 25565);
                    let settings = gamedig::games::minecraft::RequestSettings { hostname: h.clone(), protocol_version: *pv };
                    let x = run_query(mc_server(1), Box::new(Faithful), Chooser::new(&[]), || {
                        gamedig::games::minecraft::protocol::query_java(&a, None, Some(settings.clone())).map(|r| to_json(&r))
                    });
                    ctx.account(&x, 0);
                    ctx.distinct_key(&("edge", h.len(), pv));
                    let exp = vec![ConnExpect { tcp: true, addr: a, sends: java_requests(h, *pv, 25565) }];
                    let got = observed_exchange(&x.log);
                    if got != exp {
                        ctx.violation(
                            "java-handshake",
                            &[],
                            format!("handshake for a {}-byte host name, protocol {pv} differs from the Server List Ping framing (VarInt group boundary)", h.len()),
                            render_exchange(&got),
                            render_exchange(&exp),
                            render_log(&x.log),
                        );
                    }
                }
                // the other public ways of building the settings: only a host name (protocol version "unknown" = -1), the
                // default, and the conversion from the generic extra settings
                for h in &hosts {
                    let a = SocketAddr::new(IP4, 25565);
                    let built: Vec<(&str, gamedig::games::minecraft::RequestSettings, String, i32)> = vec![
                        ("new_just_hostname", gamedig::games::minecraft::RequestSettings::new_just_hostname(h.clone()), h.clone(), -1),
                        ("default", gamedig::games::minecraft::RequestSettings::default(), "gamedig".to_string(), -1),
                        ("from extra settings (host name only)", gamedig::protocols::types::ExtraRequestSettings::default().set_hostname(h.clone()).into(), h.clone(), -1),
                        ("from extra settings (host name, protocol 47)", gamedig::protocols::types::ExtraRequestSettings::default().set_hostname(h.clone()).set_protocol_version(47).into(), h.clone(), 47),
                        ("from extra settings (protocol 47, host name)", gamedig::protocols::types::ExtraRequestSettings::default().set_protocol_version(47).set_hostname(h.clone()).into(), h.clone(), 47),
                        ("from extra settings (protocol 47 only)", gamedig::protocols::types::ExtraRequestSettings::default().set_protocol_version(47).into(), "gamedig".to_string(), 47),
                        ("from extra settings (protocol 0 only)", gamedig::protocols::types::ExtraRequestSettings::default().set_protocol_version(0).into(), "gamedig".to_string(), 0),
                        ("from extra settings (nothing set)", gamedig::protocols::types::ExtraRequestSettings::default().into(), "gamedig".to_string(), -1),
                    ];
                    for (how, settings, want_host, want_pv) in built {
                        let x = run_query(mc_server(1), Box::new(Faithful), Chooser::new(&[]), || {
                            gamedig::games::minecraft::protocol::query_java(&a, None, Some(settings.clone())).map(|r| to_json(&r))
                        });
                        ctx.account(&x, 0);
                        ctx.distinct_key(&(h, how));
                        let exp = vec![ConnExpect { tcp: true, addr: a, sends: java_requests(&want_host, want_pv, 25565) }];
                        let got = observed_exchange(&x.log);
                        if got != exp {
                            ctx.violation("java-handshake", &[], format!("handshake with settings built by {how} for host {:?}", clip(h, 40)), render_exchange(&got), render_exchange(&exp), render_log(&x.log));
                        }
                    }
                }
                ctx.sample(serde_json::json!({"case": case.label, "combinations": hosts.len() * versions.len() * ports.len()}));
            }
        }
        let _ = TimeoutSettings::default();
    }
}


/// Delivers everything faithfully except that the k-th receive of the query times out (whatever was in flight is lost).
struct TimeoutAt {
    k: usize,
}
impl crate::vnet::Policy for TimeoutAt {
    fn send_menu(&mut self, _pt: &crate::vnet::SendPoint) -> usize { 1 }
    fn recv_menu(&mut self, _pt: &crate::vnet::RecvPoint) -> usize { 1 }
    fn recv_pick(&mut self, pt: &crate::vnet::RecvPoint, _idx: usize) -> crate::vnet::Pick {
        if pt.recv_index == self.k { crate::vnet::Pick::Timeout { drop_all: true } } else { crate::vnet::Pick::Head }
    }
}
