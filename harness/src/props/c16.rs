//! C16 — master-server filters are encoded faithfully and paging is complete.

use super::common::*;
use crate::explore::{explore, ExploreCfg};
use crate::prop::Prop;
use crate::report::{Ctx, Tier};
use crate::rsm::master::*;
use crate::rsm::pick;
use crate::run::{run_query, Outcome};
use crate::vnet::{all_sends, render_log, Chooser, Faithful};
use gamedig::valve_master_server::{Filter, Region, SearchFilters, ValveMasterServer};
use stateright::{Checker, Model, Property};
use std::collections::BTreeMap;
use std::hash::{Hash, Hasher};
use std::net::{IpAddr, Ipv4Addr};
use std::sync::Mutex;

pub const REGIONS: [(Region, u8); 9] = [
    (Region::UsEast, 0x00),
    (Region::UsWest, 0x01),
    (Region::AmericaSouth, 0x02),
    (Region::Europe, 0x03),
    (Region::Asia, 0x04),
    (Region::Australia, 0x05),
    (Region::MiddleEast, 0x06),
    (Region::Africa, 0x07),
    (Region::Others, 0xFF),
];

/// (kind, variant) -> (real filter, wiki key, wiki value; None = denotes no filter)
pub fn filter(kind: u8, variant: u8) -> (Filter, &'static str, Option<String>) {
    let b = variant == 0;
    let bs = |x: bool| Some(if x { "1".to_string() } else { "0".to_string() });
    let s = |v: u8| -> String {
        match v {
            0 => "de_dust2".to_string(),
            1 => "x".to_string(),
            _ => "Zürich 東京".to_string(),
        }
    };
    match kind {
        0 => (Filter::IsSecured(b), "secure", bs(b)),
        1 => (Filter::RunsMap(s(variant)), "map", Some(s(variant))),
        2 => (Filter::CanHavePassword(b), "password", bs(b)),
        3 => (Filter::CanBeEmpty(b), "empty", bs(b)),
        4 => (Filter::IsEmpty(b), "noplayers", bs(b)),
        5 => (Filter::CanBeFull(b), "full", bs(b)),
        6 => {
            let v = [440u32, 0, u32::MAX][variant as usize % 3];
            (Filter::RunsAppID(v), "appid", Some(v.to_string()))
        }
        7 => {
            let v = [500u32, 0, u32::MAX][variant as usize % 3];
            (Filter::NotAppID(v), "napp", Some(v.to_string()))
        }
        8 => {
            let tags: Vec<String> = match variant {
                0 => vec!["alltalk".into()],
                1 => vec!["a".into(), "b".into(), "c".into()],
                2 => vec![],
                // blank tags: a list is written as its elements joined by commas, whatever they are
                3 => vec!["".into()],
                4 => vec!["".into(), "ctf".into(), "".into(), "alltalk".into()],
                _ => vec!["".into(), "".into()],
            };
            let joined = if tags.is_empty() { None } else { Some(tags.join(",")) };
            (Filter::HasTags(tags), "gametype", joined)
        }
        9 => (Filter::MatchName(s(variant)), "name_match", Some(s(variant))),
        10 => (Filter::MatchVersion(s(variant)), "version_match", Some(s(variant))),
        11 => (Filter::RestrictUniqueIP(b), "collapse_addr_hash", bs(b)),
        12 => (Filter::OnAddress(s(variant)), "gameaddr", Some(s(variant))),
        13 => (Filter::Whitelisted(b), "white", bs(b)),
        14 => (Filter::SpectatorProxy(b), "proxy", bs(b)),
        15 => (Filter::IsDedicated(b), "dedicated", bs(b)),
        16 => (Filter::RunsLinux(b), "linux", bs(b)),
        _ => (Filter::HasGameDir(s(variant)), "gamedir", Some(s(variant))),
    }
}

pub fn n_variants(kind: u8) -> u8 {
    match kind {
        8 => 6,
        1 | 6 | 7 | 9 | 10 | 12 | 17 => 3,
        _ => 2,
    }
}

/// Parsed filter string: [plain, nand, nor] as sorted (key, value) lists.
pub type Groups = [Vec<(String, String)>; 3];

/// Reference grammar (Valve wiki): `\key\value` pairs; `\nand\N` and `\nor\N`
/// apply to the N pairs that follow.
pub fn parse_filter(filter: &[u8]) -> Result<Groups, String> {
    let text = std::str::from_utf8(filter).map_err(|e| format!("filter is not UTF-8: {e}"))?;
    if text.is_empty() {
        return Ok([vec![], vec![], vec![]]);
    }
    if !text.starts_with('\\') {
        return Err(format!("filter {text:?} does not start with a backslash"));
    }
    let toks: Vec<&str> = text[1 ..].split('\\').collect();
    if toks.len() % 2 != 0 {
        return Err(format!("filter {text:?} is not a sequence of \\key\\value pairs"));
    }
    let mut groups: Groups = [vec![], vec![], vec![]];
    let mut i = 0;
    while i < toks.len() {
        let (k, v) = (toks[i], toks[i + 1]);
        i += 2;
        if k == "nand" || k == "nor" {
            let g = if k == "nand" { 1 } else { 2 };
            let n: usize = v.parse().map_err(|_| format!("\\{k}\\ is not followed by a count: {v:?}"))?;
            for _ in 0 .. n {
                if i + 1 >= toks.len() + 0 && i >= toks.len() {
                    return Err(format!("\\{k}\\{n} is followed by fewer than {n} pairs"));
                }
                if i >= toks.len() {
                    return Err(format!("\\{k}\\{n} is followed by fewer than {n} pairs"));
                }
                groups[g].push((toks[i].to_string(), toks[i + 1].to_string()));
                i += 2;
            }
        } else {
            groups[0].push((k.to_string(), v.to_string()));
        }
    }
    for g in groups.iter_mut() {
        g.sort();
    }
    Ok(groups)
}

#[derive(Clone, Debug)]
pub struct FState {
    /// reference model: per group, filter kind -> variant (last write wins)
    pub groups: [BTreeMap<u8, u8>; 3],
    /// one insertion history reaching this state (not part of the identity)
    pub history: Vec<(u8, u8, u8)>,
}
impl PartialEq for FState {
    fn eq(&self, o: &Self) -> bool { self.groups == o.groups && self.history.len() == o.history.len() }
}
impl Eq for FState {}
impl Hash for FState {
    fn hash<H: Hasher>(&self, h: &mut H) {
        self.groups.hash(h);
        self.history.len().hash(h);
    }
}

pub fn build_real(history: &[(u8, u8, u8)]) -> SearchFilters {
    let mut f = SearchFilters::new();
    for (g, k, v) in history {
        let (flt, _, _) = filter(*k, *v);
        f = match g {
            0 => f.insert(flt),
            1 => f.insert_nand(flt),
            _ => f.insert_nor(flt),
        };
    }
    f
}

pub fn expected_groups(groups: &[BTreeMap<u8, u8>; 3]) -> Groups {
    let mut out: Groups = [vec![], vec![], vec![]];
    for (g, m) in groups.iter().enumerate() {
        for (k, v) in m {
            let (_, key, val) = filter(*k, *v);
            if let Some(val) = val {
                out[g].push((key.to_string(), val));
            }
        }
        out[g].sort();
    }
    out
}

/// Run the real client with these filters and return the request it emits.
pub fn emitted_request(history: &[(u8, u8, u8)], region: Region, with_filters: bool) -> Result<Vec<u8>, String> {
    let filters = if with_filters { Some(build_real(history)) } else { None };
    let server = MasterServer::new(vec![vec![TERMINATOR]]);
    let x = run_query(Box::new(server), Box::new(Faithful), Chooser::new(&[]), || {
        let mut m = ValveMasterServer::new(&addr())?;
        m.query_specific(region, &filters, "0.0.0.0", 0)
    });
    match &x.outcome {
        Outcome::Ok(_) => {}
        other => return Err(format!("query_specific failed: {}", other.class())),
    }
    let sends = all_sends(&x.log);
    if sends.len() != 1 {
        return Err(format!("{} requests sent for one page", sends.len()));
    }
    Ok(sends[0].1.to_vec())
}

/// Check one state: the request must parse under the grammar and denote exactly the reference groups.
pub fn check_state(groups: &[BTreeMap<u8, u8>; 3], history: &[(u8, u8, u8)], region: (Region, u8)) -> Result<(), (String, String, String)> {
    let req = emitted_request(history, region.0, true).map_err(|e| ("request".to_string(), e, String::new()))?;
    // (the filter pairs come out of hash maps: their order differs from process to process, so the observation quotes the
    // two header bytes in hex and the rest as text, which the replay comparison reads as a multiset)
    let parsed = parse_request(&req).map_err(|e| {
        let cut = req.len().min(2);
        ("request-framing".to_string(), format!("{e}: {} + {:?}", crate::vnet::hex(&req[.. cut]), String::from_utf8_lossy(&req[cut ..])), "31 region seed 00 filter 00".to_string())
    })?;
    if parsed.region != region.1 || parsed.seed != "0.0.0.0:0" {
        return Err(("request-header".into(), format!("region {:#04x} seed {:?}", parsed.region, parsed.seed), format!("region {:#04x} seed \"0.0.0.0:0\"", region.1)));
    }
    let want = expected_groups(groups);
    let render = |g: &Groups| format!("plain={:?} nand={:?} nor={:?}", g[0], g[1], g[2]);
    match parse_filter(&parsed.filter) {
        Err(e) => Err(("filter-grammar".into(), format!("{e} (filter {:?})", String::from_utf8_lossy(&parsed.filter)), render(&want))),
        Ok(got) => {
            if got == want {
                Ok(())
            } else {
                let which = if got[0] != want[0] { "plain" } else if got[1] != want[1] { "nand" } else { "nor" };
                Err((format!("filter-groups:{which}"), format!("{} (filter {:?})", render(&got), String::from_utf8_lossy(&parsed.filter)), render(&want)))
            }
        }
    }
}

pub struct FilterModel {
    pub depth: usize,
    pub bad: Mutex<Vec<(FState, String, String, String)>>,
    pub transitions: std::sync::atomic::AtomicU64,
}

impl Model for FilterModel {
    type State = FState;
    type Action = (u8, u8, u8);

    fn init_states(&self) -> Vec<FState> {
        vec![FState {
            groups: Default::default(),
            history: vec![],
        }]
    }

    fn actions(&self, s: &FState, actions: &mut Vec<(u8, u8, u8)>) {
        if s.history.len() >= self.depth {
            return;
        }
        for g in 0 .. 3u8 {
            for k in 0 .. 18u8 {
                for v in 0 .. n_variants(k) {
                    actions.push((g, k, v));
                }
            }
        }
    }

    fn next_state(&self, s: &FState, a: (u8, u8, u8)) -> Option<FState> {
        self.transitions.fetch_add(1, std::sync::atomic::Ordering::Relaxed);
        let mut n = s.clone();
        n.groups[a.0 as usize].insert(a.1, a.2);
        n.history.push(a);
        if let Err((class, got, want)) = check_state(&n.groups, &n.history, REGIONS[3]) {
            self.bad.lock().unwrap().push((n.clone(), class, got, want));
        }
        Some(n)
    }

    fn properties(&self) -> Vec<Property<Self>> { vec![Property::always("search runs to completion", |_, _| true)] }
}

// ---------------------------------------------------------------------------
// paging

/// Distinct listed addresses whose text form has every length: the shortest (one-digit octets and port), a middling one,
/// and the longest possible (three-digit octets, five-digit port: 21 characters - the seed of a follow-up request is text).
fn entry(i: usize) -> Entry {
    match i % 3 {
        0 => (Ipv4Addr::new(10, (i >> 16) as u8, (i >> 8) as u8, i as u8), 27000 + (i % 1000) as u16),
        1 => (Ipv4Addr::new(203, 100 + ((i / 150) % 100) as u8, 255, 100 + (i % 150) as u8), 27000 + (i % 1000) as u16),
        _ => (Ipv4Addr::new(1, 2, (i >> 8) as u8, i as u8), 1 + (i % 9) as u16),
    }
}

#[derive(Clone, Debug)]
enum What {
    Filters,
    Regions,
    NoFilters,
    Paging { pages: usize },
    /// query_singular: the first page only, without a trailing terminator
    Singular,
    /// groups of up to all 18 filter kinds (the NAND / NOR group headers carry the number of filters in decimal)
    LargeGroups,
}

fn cases(tier: Tier) -> Vec<(String, What)> {
    let mut v = vec![
        (format!("filter insertion sequences, depth <= {}", if tier.is_thorough() { 3 } else { 2 }), What::Filters),
        ("all 9 regions x insertion depth <= 1".to_string(), What::Regions),
        ("no filters (None) and empty SearchFilters".to_string(), What::NoFilters),
    ];
    for pages in 1 ..= if tier.is_thorough() { 6 } else { 4 } {
        v.push((format!("paging: {pages} pages"), What::Paging { pages }));
    }
    v.push(("query_singular: first page only".to_string(), What::Singular));
    v.push(("groups of 8..18 different filter kinds, in each group and in all three at once".to_string(), What::LargeGroups));
    v
}

pub struct C16;

impl Prop for C16 {
    fn id(&self) -> &'static str { "C16" }
    fn n_cases(&self, tier: Tier) -> usize { cases(tier).len() }
    fn case_label(&self, tier: Tier, idx: usize) -> String { cases(tier)[idx].0.clone() }
    fn stall_secs(&self) -> u64 { 900 }
    fn rule(&self) -> String {
        "filters: explicit-state search (stateright BFS, run twice): state = reference model (three maps kind -> value, \
         last write wins) + depth; 141 actions = insert / insert_nand / insert_nor x 18 filter kinds x 2-3 values each; depth \
         <= 2 (quick) / 3 (thorough); every reached state is re-created in the REAL SearchFilters through the real insertion \
         methods, the real query_specific is run under the virtual network and the emitted request must be `31 region \
         \"0.0.0.0:0\" 00 filter 00` with a filter string that parses under the wiki grammar (\\key\\value pairs, \\nand\\N / \
         \\nor\\N followed by exactly N pairs) and denotes exactly the reference groups; all 9 regions at depth <= 1. query_singular: one request seeded 0.0.0.0:0, the first page without a trailing terminator. paging: \
         listed addresses come in the shortest, a middling and the longest (21 characters) text form; all page sequences of 1..4 (quick) / 1..6 (thorough) pages with lengths from {0,1,2,230} and the terminator at \
         boundary positions of every page or absent, optionally followed in its datagram by a further 0.0.0.0:0 entry (padding): returned list = entries before the first terminator, in order; request \
         i+1 seeded with the last address of page i; one request per consumed page; nothing after the terminator"
            .into()
    }
    fn assumptions(&self) -> Vec<String> {
        vec![
            "filter keys and grammar per the Valve wiki 'Master Server Query Protocol'; filter values contain no backslash".into(),
            "sequences with an empty page before the terminator, or without any terminator, only constrain the requests and the prefix property".into(),
        ]
    }
    fn run_case(&self, tier: Tier, idx: usize, ctx: &mut Ctx) {
        let (label, what) = cases(tier)[idx].clone();
        match what {
            What::Filters => {
                let depth = if tier.is_thorough() { 3 } else { 2 };
                if let Some(ch) = ctx.replay.clone() {
                    let history: Vec<(u8, u8, u8)> = ch.chunks(3).map(|c| (c[0] as u8, c[1] as u8, c[2] as u8)).collect();
                    let mut groups: [BTreeMap<u8, u8>; 3] = Default::default();
                    for (g, k, v) in &history {
                        groups[*g as usize].insert(*k, *v);
                    }
                    ctx.counters.evaluations += 1;
                    if let Err((class, got, want)) = check_state(&groups, &history, REGIONS[3]) {
                        ctx.violation(class, &ch, format!("insertion history {history:?}"), got, want, vec![]);
                    }
                    return;
                }
                let mut counts = Vec::new();
                let mut bad = Vec::new();
                let mut transitions = 0;
                for _ in 0 .. 2 {
                    let model = FilterModel {
                        depth,
                        bad: Mutex::new(Vec::new()),
                        transitions: Default::default(),
                    };
                    let checker = model.checker().threads(16).spawn_bfs().join();
                    counts.push((checker.unique_state_count(), checker.state_count(), checker.max_depth()));
                    transitions = checker.model().transitions.load(std::sync::atomic::Ordering::Relaxed);
                    bad = std::mem::take(&mut *checker.model().bad.lock().unwrap());
                }
                if counts[0].0 != counts[1].0 {
                    ctx.violation("MACHINERY:nondeterministic-model", &[], format!("unique state counts differ: {counts:?}"), "", "", vec![]);
                }
                ctx.counters.states += counts[0].0 as u64;
                ctx.counters.transitions += transitions;
                ctx.counters.evaluations += transitions;
                ctx.counters.max_depth = counts[0].2 as u64;
                for i in 0 .. counts[0].0.min(200_000) {
                    ctx.distinct.insert(i as u64);
                }
                ctx.sample(serde_json::json!({"case": label, "unique_states": counts[0].0, "transitions": transitions, "max_depth": counts[0].2}));
                bad.sort_by_key(|(s, c, _, _)| (s.history.len(), c.clone(), s.history.clone()));
                for (s, class, got, want) in bad {
                    let ch: Vec<u32> = s.history.iter().flat_map(|(g, k, v)| [*g as u32, *k as u32, *v as u32]).collect();
                    ctx.violation(class, &ch, format!("insertion history (group, kind, value) {:?}", s.history), got, want, vec![]);
                }
            }
            What::LargeGroups => {
                let mut n = 0u64;
                for size in 8 ..= 18u8 {
                    // one group filled, then all three
                    let mut histories: Vec<Vec<(u8, u8, u8)>> = (0 .. 3u8).map(|g| (0 .. size).map(|k| (g, k, (k % 2))).collect()).collect();
                    histories.push((0 .. 3u8).flat_map(|g| (0 .. size).map(move |k| (g, k, 1))).collect());
                    // in descending kind order too (the order of insertion must not matter to the count)
                    histories.push((0 .. size).rev().map(|k| (1u8, k, 0)).collect());
                    for h in histories {
                        n += 1;
                        let mut groups: [BTreeMap<u8, u8>; 3] = Default::default();
                        for (g, k, v) in &h {
                            groups[*g as usize].insert(*k, *v);
                        }
                        ctx.distinct_key(&h);
                        if let Err((class, got, want)) = check_state(&groups, &h, REGIONS[3]) {
                            ctx.violation(format!("{class}:large-group"), &[size as u32], format!("{size} kinds per group, history {h:?}"), got, want, vec![]);
                        }
                    }
                }
                ctx.counters.evaluations += n;
                ctx.counters.states += n;
                ctx.counters.transitions += n;
                ctx.sample(serde_json::json!({"case": label, "histories": n}));
            }
            What::Regions => {
                for region in REGIONS {
                    let mut histories: Vec<Vec<(u8, u8, u8)>> = vec![vec![]];
                    for g in 0 .. 3u8 {
                        for k in 0 .. 18u8 {
                            histories.push(vec![(g, k, 0)]);
                        }
                    }
                    for h in histories {
                        let mut groups: [BTreeMap<u8, u8>; 3] = Default::default();
                        for (g, k, v) in &h {
                            groups[*g as usize].insert(*k, *v);
                        }
                        ctx.counters.evaluations += 1;
                        ctx.counters.states += 1;
                        ctx.counters.transitions += 1;
                        ctx.distinct_key(&(region.1, h.clone()));
                        if let Err((class, got, want)) = check_state(&groups, &h, region) {
                            ctx.violation(format!("{class}:region"), &[], format!("region {:#04x} history {h:?}", region.1), got, want, vec![]);
                        }
                    }
                }
                ctx.sample(serde_json::json!({"case": label, "regions": 9, "histories_per_region": 55}));
            }
            What::NoFilters => {
                for with in [false, true] {
                    ctx.counters.evaluations += 1;
                    ctx.counters.states += 1;
                    ctx.counters.transitions += 1;
                    ctx.distinct_key(&with);
                    match emitted_request(&[], Region::Others, with) {
                        Ok(req) => {
                            let want: Vec<u8> = [&[0x31u8, 0xFF][..], b"0.0.0.0:0", &[0, 0]].concat();
                            if req != want {
                                ctx.violation("request-without-filters", &[], format!("filters = {}", if with { "Some(empty)" } else { "None" }), crate::vnet::hex(&req), crate::vnet::hex(&want), vec![]);
                            }
                        }
                        Err(e) => ctx.violation("request-without-filters", &[], "query_specific failed", e, "a request", vec![]),
                    }
                }
                ctx.sample(serde_json::json!({"case": label}));
            }
            What::Singular => {
                // first page: length x (terminator last / absent / look-alike last); a second page must never be asked for
                for len in [0usize, 1, 2, 231] {
                    for tail in 0 .. 4u8 {
                        let mut page: Vec<Entry> = (0 .. len).map(|i| entry(i + 1)).collect();
                        match tail {
                            1 => page.push(TERMINATOR),
                            2 => page.push((Ipv4Addr::new(0, 0, 0, 0), 27015)),
                            3 => page.push((Ipv4Addr::new(10, 9, 9, 9), 0)),
                            _ => {}
                        }
                        let mut expected: Vec<(IpAddr, u16)> = page.iter().map(|e| (IpAddr::V4(e.0), e.1)).collect();
                        if tail == 1 {
                            expected.pop();
                        }
                        let server = MasterServer::new(vec![page.clone(), vec![entry(900), TERMINATOR]]);
                        let x = run_query(Box::new(server), Box::new(Faithful), Chooser::new(&[]), || gamedig::valve_master_server::query_singular(Region::Asia, None));
                        ctx.account(&x, 0);
                        ctx.distinct_key(&(len, tail));
                        let sends = all_sends(&x.log);
                        let shape = format!("first page of {len} addresses, tail variant {tail}");
                        let req_ok = sends.len() == 1 && matches!(parse_request(&sends[0].1), Ok(r) if r.seed == "0.0.0.0:0" && r.region == 0x04 && r.filter.is_empty());
                        match &x.outcome {
                            Outcome::Ok(list) if *list == expected && req_ok => {}
                            Outcome::Ok(list) => ctx.violation("singular-query", &[len as u32, tail as u32], shape, clip(&format!("{} requests; {list:?}", sends.len()), 300), clip(&format!("1 request seeded 0.0.0.0:0; {expected:?}"), 300), render_log(&x.log)),
                            other => ctx.violation("singular-query", &[len as u32, tail as u32], shape, other.describe_json(), "Ok(first page)", render_log(&x.log)),
                        }
                    }
                }
                // the free function `query` (complete query against the built-in master address): two pages, terminator on the second
                {
                    let pages = vec![vec![entry(1), entry(2)], vec![entry(3), TERMINATOR]];
                    let expected: Vec<(IpAddr, u16)> = [entry(1), entry(2), entry(3)].iter().map(|e| (IpAddr::V4(e.0), e.1)).collect();
                    let x = run_query(Box::new(MasterServer::new(pages)), Box::new(Faithful), Chooser::new(&[]), || gamedig::valve_master_server::query(Region::Asia, Some(SearchFilters::default())));
                    ctx.account(&x, 0);
                    let sends = all_sends(&x.log);
                    let seeds: Vec<String> = sends.iter().map(|(_, r, _)| parse_request(r).map(|p| p.seed).unwrap_or_default()).collect();
                    let ok = matches!(&x.outcome, Outcome::Ok(l) if *l == expected) && seeds == vec!["0.0.0.0:0".to_string(), format!("{}:{}", entry(2).0, entry(2).1)];
                    if !ok {
                        ctx.violation("free-function-query", &[], "valve_master_server::query over two pages", clip(&format!("{}; seeds {seeds:?}", x.outcome.describe_json()), 400), clip(&format!("{expected:?}; seeds 0.0.0.0:0 then the last address of page 1"), 400), render_log(&x.log));
                    }
                }
                // one ValveMasterServer object, two complete queries (different regions and filters): the second starts from
                // 0.0.0.0:0 again, carries its own region and filter, and returns its own list
                {
                    let pages = vec![vec![entry(1), entry(2)], vec![entry(3), TERMINATOR], vec![entry(4), TERMINATOR]];
                    let x = run_query(Box::new(MasterServer::new(pages)), Box::new(Faithful), Chooser::new(&[]), || {
                        let mut m = ValveMasterServer::new(&addr())?;
                        let a = m.query(Region::Europe, Some(SearchFilters::default().insert(Filter::RunsAppID(440))))?;
                        let b = m.query(Region::Asia, Some(SearchFilters::default().insert(Filter::RunsMap("de_dust2".to_string()))))?;
                        Ok((a, b))
                    });
                    ctx.account(&x, 0);
                    let to = |es: &[Entry]| -> Vec<(IpAddr, u16)> { es.iter().map(|e| (IpAddr::V4(e.0), e.1)).collect() };
                    let sends = all_sends(&x.log);
                    let reqs: Vec<Option<MasterRequest>> = sends.iter().map(|(_, r, _)| parse_request(r).ok()).collect();
                    let want: Vec<(u8, String, &[u8])> = vec![
                        (0x03, "0.0.0.0:0".into(), b"\\appid\\440"),
                        (0x03, format!("{}:{}", entry(2).0, entry(2).1), b"\\appid\\440"),
                        (0x04, "0.0.0.0:0".into(), b"\\map\\de_dust2"),
                    ];
                    let reqs_ok = reqs.len() == want.len() && reqs.iter().zip(&want).all(|(r, w)| matches!(r, Some(r) if r.region == w.0 && r.seed == w.1 && r.filter == w.2));
                    let ok = matches!(&x.outcome, Outcome::Ok((a, b)) if *a == to(&[entry(1), entry(2), entry(3)]) && *b == to(&[entry(4)])) && reqs_ok;
                    if !ok {
                        ctx.violation(
                            "second-query-with-the-same-object",
                            &[],
                            "two complete queries made with one ValveMasterServer object",
                            clip(&format!("{}; requests {reqs:?}", x.outcome.describe_json()), 600),
                            "([e1, e2, e3], [e4]); requests (region 03, seed 0.0.0.0:0, \\appid\\440), (03, e2, same filter), (04, 0.0.0.0:0, \\map\\de_dust2)".to_string(),
                            render_log(&x.log),
                        );
                    }
                }
                ctx.sample(serde_json::json!({"case": label}));
            }
            What::Paging { pages } => {
                explore(
                    ctx,
                    &ExploreCfg::all(),
                    |prefix| {
                        let mut ch = Chooser::new(prefix);
                        // page lengths
                        let lens: Vec<usize> = (0 .. pages).map(|_| pick(&mut ch, &[2usize, 1, 0, 230])).collect();
                        // where the terminator goes: (page, position) or absent
                        let tp = pick(&mut ch, &(0 ..= pages).collect::<Vec<_>>());
                        let mut layout: Vec<Vec<Entry>> = Vec::new();
                        let mut next = 0usize;
                        let mut term: Option<(usize, usize)> = None;
                        for (pi, l) in lens.iter().enumerate() {
                            let mut page: Vec<Entry> = (0 .. *l).map(|_| { next += 1; entry(next) }).collect();
                            if tp == pi + 1 {
                                let positions: Vec<usize> = {
                                    let mut v = vec![*l, 0, 1, l / 2, l.saturating_sub(1)];
                                    v.retain(|p| *p <= *l);
                                    v.dedup();
                                    let mut u = Vec::new();
                                    for p in v {
                                        if !u.contains(&p) {
                                            u.push(p);
                                        }
                                    }
                                    u
                                };
                                let pos = pick(&mut ch, &positions);
                                page.insert(pos, TERMINATOR);
                                term = Some((pi, pos));
                            }
                            layout.push(page);
                        }
                        // listed addresses that resemble the terminator in one half only (port 0 / unspecified ip): still servers
                        let odd = pick(&mut ch, &[0u8, 1, 2, 3]);
                        if odd != 0 {
                            let lookalike: Entry = if odd == 2 { (Ipv4Addr::new(0, 0, 0, 0), 27015) } else { (Ipv4Addr::new(10, 9, 9, 9), 0) };
                            'place: for (pi, page) in layout.iter_mut().enumerate() {
                                let n = page.len();
                                for (ei, e) in page.iter_mut().enumerate() {
                                    // odd = 3: as the last entry of a page (it then seeds the next request)
                                    if Some((pi, ei)) != term && (odd != 3 || ei + 1 == n) {
                                        *e = lookalike;
                                        break 'place;
                                    }
                                }
                            }
                        }
                        // what follows the terminator in its datagram is not part of the list, whatever it looks like: zero
                        // padding (more 0.0.0.0:0 entries) at the end of the page or right behind the terminator
                        let pad = pick(&mut ch, &[0u8, 1, 2]);
                        if let (Some((pi, pos)), true) = (term, pad != 0) {
                            if pad == 1 {
                                layout[pi].push(TERMINATOR);
                            } else {
                                layout[pi].insert(pos + 1, TERMINATOR);
                            }
                        }
                        let server = MasterServer::new(layout.clone());
                        let x = run_query(Box::new(server), Box::new(Faithful), ch, || {
                            let mut m = ValveMasterServer::new(&addr())?;
                            m.query(Region::Europe, None)
                        });
                        (x, (layout, term))
                    },
                    |ctx, x, (layout, term)| {
                        // reference
                        let mut expected: Vec<(IpAddr, u16)> = Vec::new();
                        let mut consumed_pages = 0usize;
                        let mut clean = true; // no empty page before the terminator
                        'outer: for (pi, page) in layout.iter().enumerate() {
                            consumed_pages = pi + 1;
                            if page.is_empty() {
                                clean = false;
                            }
                            for (ei, e) in page.iter().enumerate() {
                                if Some((pi, ei)) == *term {
                                    break 'outer;
                                }
                                expected.push((IpAddr::V4(e.0), e.1));
                            }
                        }
                        let sends = all_sends(&x.log);
                        let shape = format!("page lengths {:?}, terminator at {:?}", layout.iter().map(Vec::len).collect::<Vec<_>>(), term);
                        // requests: seeds
                        let mut seeds_ok = true;
                        let mut prev_last: Option<Entry> = None;
                        for (i, (_, req, _)) in sends.iter().enumerate() {
                            let want_seed = match (i, prev_last) {
                                (0, _) => "0.0.0.0:0".to_string(),
                                (_, Some(e)) => format!("{}:{}", e.0, e.1),
                                (_, None) => "?".to_string(),
                            };
                            match parse_request(req) {
                                Ok(r) if r.seed == want_seed && r.region == 0x03 && r.filter.is_empty() => {}
                                Ok(r) => {
                                    seeds_ok = false;
                                    ctx.violation("paging-seed", &x.choices(), format!("request {} is seeded with {:?} ({shape})", i + 1, r.seed), format!("seed {:?}", r.seed), format!("seed {want_seed:?}"), render_log(&x.log));
                                }
                                Err(e) => {
                                    seeds_ok = false;
                                    ctx.violation("paging-request-framing", &x.choices(), e, crate::vnet::hex(req), "31 region seed 00 filter 00", render_log(&x.log));
                                }
                            }
                            prev_last = layout.get(i).and_then(|p| p.last().copied());
                        }
                        if term.is_some() && clean {
                            match &x.outcome {
                                Outcome::Ok(list) => {
                                    if *list != expected {
                                        let kind = if list.len() > expected.len() && list[.. expected.len()] == expected[..] {
                                            "paging-returns-entries-at-or-after-the-terminator"
                                        } else if list.len() < expected.len() && expected[.. list.len()] == list[..] {
                                            "paging-drops-entries"
                                        } else {
                                            "paging-wrong-entries"
                                        };
                                        ctx.violation(kind, &x.choices(), format!("returned {} addresses, expected {} ({shape})", list.len(), expected.len()), clip(&format!("{list:?}"), 400), clip(&format!("{expected:?}"), 400), render_log(&x.log));
                                    } else if sends.len() != consumed_pages {
                                        ctx.violation("paging-request-count", &x.choices(), format!("{} requests for {} consumed pages ({shape})", sends.len(), consumed_pages), format!("{}", sends.len()), format!("{consumed_pages}"), render_log(&x.log));
                                    } else if seeds_ok {
                                        ctx.sample(serde_json::json!({"case": label, "shape": shape, "returned": list.len(), "requests": sends.len()}));
                                    }
                                }
                                other => {
                                    ctx.violation("paging-fails", &x.choices(), format!("complete page sequence not returned ({shape})"), other.describe_json(), format!("{} addresses", expected.len()), render_log(&x.log));
                                }
                            }
                        } else if let Outcome::Ok(list) = &x.outcome {
                            // prefix property only
                            let n = list.len().min(expected.len());
                            if list[.. n] != expected[.. n] || list.iter().any(|e| *e == (IpAddr::V4(TERMINATOR.0), TERMINATOR.1)) {
                                ctx.violation("paging-wrong-entries", &x.choices(), format!("returned list is not a prefix of the listed addresses ({shape})"), clip(&format!("{list:?}"), 400), clip(&format!("{expected:?}"), 400), render_log(&x.log));
                            }
                        } else if !x.outcome.is_total() {
                            ctx.violation("paging-crash", &x.choices(), shape, x.outcome.describe_json(), "Ok or Err", render_log(&x.log));
                        }
                    },
                );
            }
        }
    }
}
