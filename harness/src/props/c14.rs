//! C14 — definition-driven, per-game and protocol-level queries agree.

use super::common::*;
use crate::prop::Prop;
use crate::report::{Ctx, Tier};
use crate::run::{run_query, Exec, Outcome};
use crate::targets::*;
use crate::vnet::{render_log, Chooser, Faithful, Pick, Policy, RecvPoint, Responder, SendPoint, Silent};
use gamedig::games::minecraft as mc;
use gamedig::protocols::gamespy::GameSpyVersion;
use gamedig::protocols::quake::QuakeVersion;
use gamedig::protocols::types::{ExtraRequestSettings, GatherToggle, ProprietaryProtocol as PP, Protocol, TimeoutSettings};
use gamedig::protocols::{gamespy, quake, unreal2, valve, GenericResponse};
use gamedig::{GDResult, Game};
use serde_json::{json, Value};
use std::net::SocketAddr;

/// Harness-side table: definition id -> dedicated module name (where it differs).
pub fn module_of(id: &str) -> &str {
    match id {
        "dhe4445" => "darkesthour",
        "unrealtournament2003" => "ut2003",
        "unrealtournament2004" => "ut2004",
        other => other,
    }
}

/// Server behaviours.
#[derive(Clone, Copy, Debug, PartialEq, Eq)]
pub enum Behaviour {
    Valid,
    /// valid, and one of the listed players has an empty name (a client that is still connecting)
    ValidUnnamedPlayer,
    ValidDedicatedId,
    ForeignId,
    InfoThenSilent,
    RulesMalformed,
    Silence,
}
pub const BEHAVIOURS: [Behaviour; 7] = [
    Behaviour::Valid,
    Behaviour::ValidUnnamedPlayer,
    Behaviour::ValidDedicatedId,
    Behaviour::ForeignId,
    Behaviour::InfoThenSilent,
    Behaviour::RulesMalformed,
    Behaviour::Silence,
];

/// Drops / corrupts per request unit (unit = 5th byte for Valve / Unreal 2).
struct Partial {
    b: Behaviour,
    cur: u8,
}
impl Policy for Partial {
    fn send_menu(&mut self, pt: &SendPoint) -> usize {
        self.cur = pt.data.get(4).copied().unwrap_or(0);
        1
    }
    fn recv_pick(&mut self, pt: &RecvPoint, _idx: usize) -> Pick {
        if pt.queue.is_empty() {
            return Pick::Head;
        }
        let second_unit = matches!(self.cur, 0x55 | 1);
        let third_unit = matches!(self.cur, 0x56 | 2);
        match self.b {
            Behaviour::InfoThenSilent if second_unit || third_unit => Pick::Timeout { drop_all: true },
            Behaviour::RulesMalformed if third_unit => Pick::Custom { data: vec![0xAB, 0xCD], consume: true },
            _ => Pick::Head,
        }
    }
}

fn server_with(game: &Game, b: Behaviour) -> Option<Box<dyn Responder>> {
    if b == Behaviour::Silence {
        return Some(Box::new(Silent));
    }
    let fam = family_of_game(game)?;
    if let (Protocol::Valve(valve::Engine::Source(Some((main, ded)))), Family::Valve(e)) = (&game.protocol, fam) {
        let id = match b {
            Behaviour::ValidDedicatedId => ded.unwrap_or(*main),
            Behaviour::ForeignId => 7,
            _ => *main,
        };
        let mut s = valve_seed(e);
        if b == Behaviour::ValidUnnamedPlayer {
            if let Some(p) = s.players.first_mut() {
                p.name = String::new();
            }
        }
        s.info.appid = if id <= 0xffff { id as u16 } else { 0 };
        s.info.edf.as_mut().unwrap().game_id = Some(id as u64);
        let t = valve_seed_transport(e, &s);
        return Some(Box::new(crate::rsm::valve::ValveServer::new(s, t)));
    }
    Some((server_for_game(game)?)())
}

/// Path C: the protocol's own query function with the definition's parameters.
fn protocol_path(game: &Game, ip: &std::net::IpAddr, port: Option<u16>, ts: Option<TimeoutSettings>, extra: Option<ExtraRequestSettings>) -> GDResult<Value> {
    let a = SocketAddr::new(*ip, port.unwrap_or(game.default_port));
    let settings = extra.unwrap_or_else(|| game.request_settings.clone());
    Ok(match &game.protocol {
        Protocol::Valve(engine) => json!({"Valve": to_json(&valve::query(&a, *engine, Some(settings.into()), ts)?)}),
        Protocol::Gamespy(GameSpyVersion::One) => json!({"GameSpy": {"One": to_json(&gamespy::one::query(&a, ts)?)}}),
        Protocol::Gamespy(GameSpyVersion::Two) => json!({"GameSpy": {"Two": to_json(&gamespy::two::query(&a, ts)?)}}),
        Protocol::Gamespy(GameSpyVersion::Three) => json!({"GameSpy": {"Three": to_json(&gamespy::three::query(&a, ts)?)}}),
        Protocol::Quake(QuakeVersion::One) => json!({"Quake": {"One": to_json(&quake::one::query(&a, ts)?)}}),
        Protocol::Quake(QuakeVersion::Two) => json!({"Quake": {"TwoAndThree": to_json(&quake::two::query(&a, ts)?)}}),
        Protocol::Quake(QuakeVersion::Three) => json!({"Quake": {"TwoAndThree": to_json(&quake::three::query(&a, ts)?)}}),
        Protocol::Unreal2 => json!({"Unreal2": to_json(&unreal2::query(&a, &settings.into(), ts)?)}),
        Protocol::PROPRIETARY(p) => {
            match p {
                PP::TheShip => json!({"TheShip": to_json(&gamedig::games::theship::Response::new_from_valve_response(valve::query(&a, valve::Engine::new(2400), None, ts)?)?)}),
                PP::Minecraft(None) => json!({"Minecraft": {"Java": to_json(&mc::protocol::query(&a, ts, Some(settings.into()))?)}}),
                PP::Minecraft(Some(mc::Server::Java)) => json!({"Minecraft": {"Java": to_json(&mc::protocol::query_java(&a, ts, Some(settings.into()))?)}}),
                PP::Minecraft(Some(mc::Server::Bedrock)) => json!({"Minecraft": {"Bedrock": to_json(&mc::protocol::query_bedrock(&a, ts)?)}}),
                PP::Minecraft(Some(mc::Server::Legacy(g))) => json!({"Minecraft": {"Java": to_json(&mc::protocol::query_legacy_specific(*g, &a, ts)?)}}),
                PP::FFOW => json!({"FFOW": to_json(&gamedig::games::ffow::query_with_timeout(ip, Some(a.port()), ts)?)}),
                PP::JC2M => json!({"JC2M": to_json(&gamedig::games::jc2m::query_with_timeout(ip, Some(a.port()), ts)?)}),
                PP::Savage2 => json!({"Savage2": to_json(&gamedig::games::savage2::query_with_timeout(ip, Some(a.port()), ts)?)}),
                // (Mindustry has a protocol-level function of its own, the one that honours the retry count)
                PP::Mindustry => json!({"Mindustry": to_json(&gamedig::games::mindustry::protocol::query_with_retries(&a, &ts)?)}),
                PP::Eco => json!(null),
            }
        }
    })
}

/// Path B: the dedicated module, result lifted to the shape of path A's original.
fn module_path(id: &str, game: &Game, ip: &std::net::IpAddr, port: Option<u16>) -> Option<GDResult<Value>> {
    let m = module_of(id);
    if let Some((_, fam, f)) = WRAPPERS.iter().find(|(n, _, _)| *n == m) {
        let r = f(ip, port);
        return Some(r.map(|v| {
            match (*fam, &game.protocol) {
                ("valve", _) => json!({"ValveGame": v}),
                ("gamespy", Protocol::Gamespy(GameSpyVersion::One)) => json!({"GameSpy": {"One": v}}),
                ("gamespy", Protocol::Gamespy(GameSpyVersion::Two)) => json!({"GameSpy": {"Two": v}}),
                ("gamespy", _) => json!({"GameSpy": {"Three": v}}),
                ("quake", Protocol::Quake(QuakeVersion::One)) => json!({"Quake": {"One": v}}),
                ("quake", _) => json!({"Quake": {"TwoAndThree": v}}),
                _ => json!({"Unreal2": v}),
            }
        }));
    }
    let j = |r: GDResult<Value>| Some(r);
    match id {
        "minecraft" => j(mc::query(ip, port).map(|r| json!({"Minecraft": {"Java": to_json(&r)}}))),
        "minecraftjava" => j(mc::query_java(ip, port, None).map(|r| json!({"Minecraft": {"Java": to_json(&r)}}))),
        "minecraftbedrock" | "minecraftpocket" => j(mc::query_bedrock(ip, port).map(|r| json!({"Minecraft": {"Bedrock": to_json(&r)}}))),
        "minecraftlegacy16" => j(mc::query_legacy_specific(mc::LegacyGroup::V1_6, ip, port).map(|r| json!({"Minecraft": {"Java": to_json(&r)}}))),
        "minecraftlegacy14" => j(mc::query_legacy_specific(mc::LegacyGroup::V1_4, ip, port).map(|r| json!({"Minecraft": {"Java": to_json(&r)}}))),
        "minecraftlegacyb18" => j(mc::query_legacy_specific(mc::LegacyGroup::VB1_8, ip, port).map(|r| json!({"Minecraft": {"Java": to_json(&r)}}))),
        "ffow" => j(gamedig::games::ffow::query(ip, port).map(|r| json!({"FFOW": to_json(&r)}))),
        "jc2m" => j(gamedig::games::jc2m::query(ip, port).map(|r| json!({"JC2M": to_json(&r)}))),
        "savage2" => j(gamedig::games::savage2::query(ip, port).map(|r| json!({"Savage2": to_json(&r)}))),
        "mindustry" => j(gamedig::games::mindustry::query(ip, port, &None).map(|r| json!({"Mindustry": to_json(&r)}))),
        "theship" => j(gamedig::games::theship::query(ip, port).map(|r| json!({"TheShip": to_json(&r)}))),
        "battalion1944" => j(gamedig::games::battalion1944::query(ip, port).map(|r| json!({"ValveGame": to_json(&r)}))),
        _ => None,
    }
}

/// Path A's original response, additionally converted the documented way for Valve per-game modules.
fn generic_path(game: &Game, ip: &std::net::IpAddr, port: Option<u16>, ts: Option<TimeoutSettings>, extra: Option<ExtraRequestSettings>) -> GDResult<(Value, Option<Value>)> {
    // the three generic entry points are wrappers of one another: each call goes through the narrowest one that takes its
    // arguments (no extra settings -> query_with_timeout; no timeouts either -> query)
    let r = match (&ts, &extra) {
        (None, None) => gamedig::query(game, ip, port)?,
        (Some(_), None) => gamedig::query_with_timeout(game, ip, port, ts)?,
        _ => gamedig::query_with_timeout_and_extra_settings(game, ip, port, ts, extra)?,
    };
    let orig = r.as_original();
    let conv = match &orig {
        // (converted field by field by the harness, not by the conversion the per-game modules use)
        GenericResponse::Valve(v) => Some(json!({"ValveGame": to_json(&super::c02::reference_game_response(v))})),
        _ => None,
    };
    Ok((to_json(&orig), conv))
}

fn exchange<T>(x: &Exec<T>) -> String {
    super::c09::observed_exchange(&x.log)
        .iter()
        .map(|c| {
            format!(
                "{} {} [{}]",
                if c.tcp { "tcp" } else { "udp" },
                c.addr,
                c.sends.iter().map(|s| crate::vnet::hex(s)).collect::<Vec<_>>().join(",")
            )
        })
        .collect::<Vec<_>>()
        .join(" ; ")
}

fn outcome_key<T: serde::Serialize>(o: &Outcome<T>) -> String {
    match o {
        Outcome::Ok(v) => format!("Ok({})", to_json(v)),
        Outcome::Err(k, _) => format!("Err({k:?})"),
        other => other.class(),
    }
}

pub struct C14;

fn ids() -> Vec<&'static str> {
    let mut v: Vec<&'static str> = gamedig::GAMES.keys().copied().collect();
    v.sort();
    v
}

impl Prop for C14 {
    fn id(&self) -> &'static str { "C14" }
    fn n_cases(&self, _tier: Tier) -> usize { ids().len() + 1 }
    fn case_label(&self, _tier: Tier, idx: usize) -> String {
        if idx == ids().len() { "how a definition's parameters reach the protocol: settings builders and conversions".into() } else { format!("definition '{}'", ids()[idx]) }
    }
    fn rule(&self) -> String {
        "case = one entry of GAMES (iterated from the table itself). For port {omitted, given, 0} x timeout settings {None, \
         Some(retries=1)} x extra settings {None, every gather-toggle pair and check_app_id value / hostname + protocol version} \
         x server behaviour {valid with main / dedicated / foreign app id, info then silence, info+players then malformed rules, \
         total silence}: the generic definition-driven query (through the narrowest of the three generic wrappers that takes the arguments) and the protocol's own query function called with the definition's \
         protocol, default port and request settings must produce identical wire logs (destination, bytes, order) and equal \
         results (errors of the same kind); with default settings the game's dedicated module (found through a harness-side id \
         -> module table; `dhe4445 -> darkesthour` etc.) must do so too, its result compared after the documented conversion. \
         Eco (HTTP) is compared on the destination port only (loopback listeners). distinct_nontrivial = distinct (wire log, \
         outcome) pairs"
            .into()
    }
    fn assumptions(&self) -> Vec<String> { vec!["the module for a definition is the macro-generated / hand-written module named after the id, with three documented renames".into()] }
    fn run_case(&self, _tier: Tier, idx: usize, ctx: &mut Ctx) {
        if idx == ids().len() {
            settings_conversions(ctx);
            return;
        }
        let id = ids()[idx];
        let game = gamedig::GAMES.get(id).unwrap();
        let label = format!("definition '{id}'");
        if matches!(game.protocol, Protocol::PROPRIETARY(PP::Eco)) {
            // destination port of the two entry points when no port is given
            use std::net::{IpAddr, Ipv4Addr, TcpListener};
            let ip = IpAddr::V4(Ipv4Addr::LOCALHOST);
            let listeners: Vec<(u16, Option<TcpListener>)> = [3000u16, 3001].iter().map(|p| (*p, TcpListener::bind((ip, *p)).ok())).collect();
            for (_, l) in &listeners {
                if let Some(l) = l {
                    l.set_nonblocking(true).ok();
                }
            }
            let ts = TimeoutSettings::new(Some(std::time::Duration::from_millis(300)), Some(std::time::Duration::from_millis(300)), Some(std::time::Duration::from_millis(300)), 0).ok();
            let probe = |f: &dyn Fn() -> bool| -> Vec<u16> {
                let _ = f();
                let mut hit = Vec::new();
                for (p, l) in &listeners {
                    if let Some(l) = l {
                        if l.accept().is_ok() {
                            hit.push(*p);
                        }
                    }
                }
                hit
            };
            let a = probe(&|| gamedig::query_with_timeout_and_extra_settings(game, &ip, None, ts, None).is_ok());
            let b = probe(&|| gamedig::games::eco::query_with_timeout(&ip, None, &ts).is_ok());
            ctx.counters.evaluations += 2;
            ctx.counters.states += 2;
            ctx.counters.transitions += 2;
            ctx.distinct_key(&(a.clone(), "generic"));
            ctx.distinct_key(&(b.clone(), "module"));
            if listeners.iter().any(|(_, l)| l.is_none()) {
                ctx.note("eco_port_probe_skipped_port_in_use", 1);
            } else if a != vec![game.default_port] || b != vec![game.default_port] {
                ctx.violation("paths-disagree:destination:eco", &[], format!("no port given; definition default port {}", game.default_port), format!("generic dispatch connects to {a:?}, eco::query to {b:?}"), format!("both connect to [{}]", game.default_port), vec![]);
            } else {
                ctx.sample(json!({"case": label, "generic_port": a, "module_port": b}));
            }
            return;
        }
        let fam = family_of_game(game).unwrap();
        let family = super::c09::family_tag(fam);
        let mut extras: Vec<Option<ExtraRequestSettings>> = vec![None];
        match fam {
            Family::Valve(_) | Family::Unreal2 => {
                for p in TOGGLES {
                    for r in TOGGLES {
                        for chk in [true, false] {
                            extras.push(Some(ExtraRequestSettings { hostname: None, protocol_version: None, gather_players: Some(p), gather_rules: Some(r), check_app_id: Some(chk) }));
                        }
                    }
                }
                extras.push(Some(ExtraRequestSettings::default()));
            }
            Family::Java | Family::McAuto => {
                extras.push(Some(ExtraRequestSettings::default().set_hostname("mc.example.org".into()).set_protocol_version(765)));
                extras.push(Some(ExtraRequestSettings::default().set_hostname("x".into())));
                extras.push(Some(ExtraRequestSettings::default()));
            }
            _ => extras.push(Some(ExtraRequestSettings::default())),
        }
        let behaviours: Vec<Behaviour> = match fam {
            Family::Valve(_) => BEHAVIOURS.to_vec(),
            Family::Unreal2 => vec![Behaviour::Valid, Behaviour::InfoThenSilent, Behaviour::RulesMalformed, Behaviour::Silence],
            _ => vec![Behaviour::Valid, Behaviour::Silence],
        };
        // both address families (with the full product of settings on IPv4 and the default settings on IPv6)
        for ip in [IP4, super::c09::IP6] {
        // (port 0 is a port like any other to every path: given, it is used)
        for port in [None, Some(PORT), Some(0)] {
            for ts in [None, super::c01::timeouts(1)] {
                for extra in &extras {
                    if ip != IP4 && (extra.is_some() || ts.is_some()) {
                        continue;
                    }
                    if port == Some(0) && (ip != IP4 || extra.is_some() || ts.is_some()) {
                        continue;
                    }
                    for b in &behaviours {
                        let run = |f: &dyn Fn() -> GDResult<Value>| -> Exec<Value> {
                            run_query(server_with(game, *b).unwrap(), Box::new(Partial { b: *b, cur: 0 }), Chooser::new(&[]), f)
                        };
                        let cfg = format!("ip={ip} port={port:?} timeouts={} extra={} server={b:?}", if ts.is_some() { "Some(retries=1)" } else { "None" }, match extra { None => "None".to_string(), Some(e) => format!("{{players:{:?},rules:{:?},check:{:?},host:{:?}}}", e.gather_players, e.gather_rules, e.check_app_id, e.hostname) });
                        // path A
                        let mut conv: Option<Value> = None;
                        let xa = {
                            let conv_ref = std::cell::RefCell::new(None);
                            let x = run(&|| {
                                let (o, c) = generic_path(game, &ip, port, ts, extra.clone())?;
                                *conv_ref.borrow_mut() = c;
                                Ok(o)
                            });
                            conv = conv_ref.into_inner().or(conv);
                            x
                        };
                        // vacuity guard: against the valid server, with nothing overridden, the query must succeed - otherwise the
                        // three paths would only be agreeing about an error
                        if *b == Behaviour::Valid && extra.is_none() && !matches!(xa.outcome, Outcome::Ok(_)) {
                            ctx.violation("valid-reference-server-rejected", &[], format!("{label}: {cfg}"), outcome_key(&xa.outcome), "Ok(..)", render_log(&xa.log));
                        }
                        // path C
                        let xc = run(&|| protocol_path(game, &ip, port, ts, extra.clone()));
                        ctx.account(&xa, 0);
                        ctx.account(&xc, 0);
                        ctx.distinct_key(&(exchange(&xa), outcome_key(&xa.outcome)));
                        let (ea, ec) = (exchange(&xa), exchange(&xc));
                        if ea != ec {
                            let kind = if super::c09::observed_exchange(&xa.log).iter().map(|c| c.addr).collect::<Vec<_>>() != super::c09::observed_exchange(&xc.log).iter().map(|c| c.addr).collect::<Vec<_>>() { "destination" } else { "requests" };
                            ctx.violation(format!("paths-disagree:{kind}:{family}:generic-vs-protocol"), &[], format!("{label}: {cfg}"), format!("generic: {ea}"), format!("protocol function with the definition's parameters: {ec}"), render_log(&xa.log));
                        } else if outcome_key(&xa.outcome) != outcome_key(&xc.outcome) {
                            ctx.violation(format!("paths-disagree:result:{family}:generic-vs-protocol"), &[], format!("{label}: {cfg}"), clip(&format!("generic: {}", outcome_key(&xa.outcome)), 700), clip(&format!("protocol: {}", outcome_key(&xc.outcome)), 700), render_log(&xa.log));
                        }
                        // path B: default settings only
                        if ts.is_none() && extra.is_none() {
                            let xb = run(&|| module_path(id, game, &ip, port).unwrap_or(Ok(Value::Null)));
                            if module_path_exists(id) {
                                ctx.account(&xb, 0);
                                let eb = exchange(&xb);
                                let a_out = match (&xa.outcome, &conv, &xb.outcome) {
                                    (Outcome::Ok(_), Some(c), Outcome::Ok(v)) if v.get("ValveGame").is_some() => format!("Ok({c})"),
                                    _ => outcome_key(&xa.outcome),
                                };
                                if ea != eb {
                                    let (oa, ob) = (super::c09::observed_exchange(&xa.log), super::c09::observed_exchange(&xb.log));
                                    // the one documented exception: only the port of the Bedrock (UDP) attempt of the auto-detecting Minecraft query differs
                                    let only_bedrock_port = oa.len() == ob.len()
                                        && oa.iter().zip(&ob).all(|(a, b)| a.tcp == b.tcp && a.sends == b.sends && a.addr.ip() == b.addr.ip() && (a.addr.port() == b.addr.port() || !a.tcp));
                                    let kind = if only_bedrock_port && matches!(fam, Family::McAuto) {
                                        "destination:bedrock-attempt-port-only"
                                    } else if super::c09::observed_exchange(&xa.log).iter().map(|c| c.addr).collect::<Vec<_>>() != super::c09::observed_exchange(&xb.log).iter().map(|c| c.addr).collect::<Vec<_>>() { "destination" } else { "requests" };
                                    ctx.violation(format!("paths-disagree:{kind}:{family}:generic-vs-module"), &[], format!("{label}: {cfg}"), format!("generic: {ea}"), format!("games::{}: {eb}", module_of(id)), render_log(&xb.log));
                                } else if a_out != outcome_key(&xb.outcome) && id != "battalion1944" {
                                    ctx.violation(format!("paths-disagree:result:{family}:generic-vs-module"), &[], format!("{label}: {cfg}"), clip(&format!("generic: {a_out}"), 700), clip(&format!("games::{}: {}", module_of(id), outcome_key(&xb.outcome)), 700), render_log(&xb.log));
                                }
                            } else {
                                ctx.note("definitions_without_module", 1);
                            }
                        }
                    }
                }
            }
        }
        }
        ctx.sample(json!({"case": label, "family": family, "extras": extras.len(), "behaviours": behaviours.len(), "module": if module_path_exists(id) { module_of(id) } else { "-" }}));
    }
}

fn module_path_exists(id: &str) -> bool {
    let m = module_of(id);
    WRAPPERS.iter().any(|(n, _, _)| *n == m)
        || matches!(id, "minecraft" | "minecraftjava" | "minecraftbedrock" | "minecraftpocket" | "minecraftlegacy16" | "minecraftlegacy14" | "minecraftlegacyb18" | "ffow" | "jc2m" | "savage2" | "mindustry" | "theship" | "battalion1944")
}


/// The generic entry point hands a definition's request settings to the protocol through `ExtraRequestSettings` and the
/// `From` / `into_extra` conversions: over every combination of present / absent members they must carry each member to the
/// field of the same meaning, fall back to the protocol's own default for an absent one, and the builder methods must set
/// the member they name.
fn settings_conversions(ctx: &mut Ctx) {
    use gamedig::games::minecraft::RequestSettings as McSettings;
    use gamedig::protocols::unreal2::GatheringSettings as U2Settings;
    use gamedig::protocols::valve::GatheringSettings as ValveSettings;
    let opt_toggles: Vec<Option<GatherToggle>> = std::iter::once(None).chain(TOGGLES.iter().copied().map(Some)).collect();
    let opt_bools = [None, Some(true), Some(false)];
    let opt_hosts = [None, Some(String::new()), Some("mc.example.org".to_string())];
    let opt_versions = [None, Some(-1i32), Some(0), Some(765), Some(i32::MIN), Some(i32::MAX)];
    let mut n = 0u64;
    let mut bad = |ctx: &mut Ctx, what: &str, input: String, got: String, want: String| {
        ctx.violation(format!("settings-conversion:{what}"), &[], input, got, want, vec![]);
    };
    for p in &opt_toggles {
        for r in &opt_toggles {
            for chk in &opt_bools {
                for h in &opt_hosts {
                    for pv in &opt_versions {
                        n += 1;
                        let lit = ExtraRequestSettings { hostname: h.clone(), protocol_version: *pv, gather_players: *p, gather_rules: *r, check_app_id: *chk };
                        ctx.distinct_key(&format!("{lit:?}"));
                        // builders
                        let mut b = ExtraRequestSettings::default();
                        if let Some(x) = h { b = b.set_hostname(x.clone()); }
                        if let Some(x) = pv { b = b.set_protocol_version(*x); }
                        if let Some(x) = p { b = b.set_gather_players(*x); }
                        if let Some(x) = r { b = b.set_gather_rules(*x); }
                        if let Some(x) = chk { b = b.set_check_app_id(*x); }
                        if b != lit {
                            bad(ctx, "builders", format!("{lit:?}"), format!("{b:?}"), format!("{lit:?}"));
                        }
                        // to the protocols
                        let vd = ValveSettings::default();
                        let v: ValveSettings = lit.clone().into();
                        let vw = ValveSettings { players: p.unwrap_or(vd.players), rules: r.unwrap_or(vd.rules), check_app_id: chk.unwrap_or(vd.check_app_id) };
                        if v != vw {
                            bad(ctx, "valve", format!("{lit:?}"), format!("{v:?}"), format!("{vw:?}"));
                        }
                        let ud = U2Settings::default();
                        let u: U2Settings = lit.clone().into();
                        let uw = U2Settings { players: p.unwrap_or(ud.players), mutators_and_rules: r.unwrap_or(ud.mutators_and_rules) };
                        if u != uw {
                            bad(ctx, "unreal2", format!("{lit:?}"), format!("{u:?}"), format!("{uw:?}"));
                        }
                        let md = McSettings::default();
                        let m: McSettings = lit.clone().into();
                        let mw = McSettings { hostname: h.clone().unwrap_or(md.hostname.clone()), protocol_version: pv.unwrap_or(md.protocol_version) };
                        if m != mw {
                            bad(ctx, "minecraft", format!("{lit:?}"), format!("{m:?}"), format!("{mw:?}"));
                        }
                    }
                }
            }
        }
    }
    // the `Default` trait value (what `unwrap_or_default()` / `..Default::default()` give) is the documented inherent default
    {
        n += 1;
        let (vt, vi) = (<ValveSettings as Default>::default(), ValveSettings::default());
        if vt != vi {
            bad(ctx, "valve-default-trait", "Default::default()".into(), format!("{vt:?}"), format!("{vi:?}"));
        }
        let (ut, ui) = (<U2Settings as Default>::default(), U2Settings::default());
        if ut != ui {
            bad(ctx, "unreal2-default-trait", "Default::default()".into(), format!("{ut:?}"), format!("{ui:?}"));
        }
    }
    // and back: a protocol's settings survive the trip through the generic form
    for p in TOGGLES {
        for r in TOGGLES {
            for chk in [true, false] {
                n += 1;
                let v = ValveSettings { players: p, rules: r, check_app_id: chk };
                let back: ValveSettings = v.into_extra().into();
                if back != v {
                    bad(ctx, "valve-round-trip", format!("{v:?}"), format!("{back:?}"), format!("{v:?}"));
                }
            }
            n += 1;
            let u = U2Settings { players: p, mutators_and_rules: r };
            let back: U2Settings = u.into_extra().into();
            if back != u {
                bad(ctx, "unreal2-round-trip", format!("{u:?}"), format!("{back:?}"), format!("{u:?}"));
            }
        }
    }
    ctx.counters.evaluations += n;
    ctx.counters.states += n;
    ctx.counters.transitions += n * 4;
    ctx.sample(json!({"case": "settings builders and conversions", "combinations": n}));
}
