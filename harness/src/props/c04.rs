//! C04 — GameSpy 1/2/3 replies are decoded completely.

use super::common::*;
use crate::prop::Prop;
use crate::report::{Ctx, Tier};
use crate::rsm::gamespy::*;
use gamedig::protocols::gamespy;
use std::sync::OnceLock;

#[derive(Clone, Debug)]
enum What {
    One { parts: usize, cut_every: Option<usize>, vars: bool },
    Two,
    Three { packets: usize, cut_every: Option<usize>, vars: bool },
}

#[derive(Clone, Debug)]
struct Case {
    label: String,
    what: What,
    players: Vec<usize>,
    teams: Vec<usize>,
    bound: usize,
}

fn build(tier: Tier) -> Vec<Case> {
    let dev = if tier.is_thorough() { 2 } else { 1 };
    let mut v = Vec::new();
    for parts in 1 ..= 7usize {
        for vars in [false, true] {
            v.push(Case {
                label: format!("gs1 {} parts={parts} dev<={}", if vars { "query_vars" } else { "query" }, if parts <= 2 { dev } else { dev.min(1) }),
                what: What::One { parts, cut_every: None, vars },
                players: vec![2, 0, 1, 64],
                teams: vec![],
                bound: if parts <= 2 { dev } else { dev.min(1) },
            });
        }
    }
    // two parts, cut at every pair boundary of the default state
    for at in 1 .. 24usize {
        v.push(Case {
            label: format!("gs1 query 2 parts cut before pair {at}"),
            what: What::One { parts: 2, cut_every: Some(at), vars: false },
            players: vec![2],
            teams: vec![],
            bound: 0,
        });
    }
    v.push(Case {
        label: format!("gs2 query dev<={dev}"),
        what: What::Two,
        players: vec![2, 0, 1, 64],
        teams: vec![2, 0, 1, 8],
        bound: dev,
    });
    for packets in 1 ..= 7usize {
        for vars in [false, true] {
            v.push(Case {
                label: format!("gs3 {} packets={packets} dev<={}", if vars { "query_vars" } else { "query" }, if packets <= 2 { dev } else { dev.min(1) }),
                what: What::Three { packets, cut_every: None, vars },
                players: vec![2, 0, 1, 64],
                teams: vec![2, 0, 1, 8],
                bound: if packets <= 2 { dev } else { dev.min(1) },
            });
        }
    }
    for at in 1 .. 40usize {
        v.push(Case {
            label: format!("gs3 query 2 packets cut before atom {at}"),
            what: What::Three { packets: 2, cut_every: Some(at), vars: false },
            players: vec![2],
            teams: vec![2],
            bound: 0,
        });
    }
    v
}

static QUICK: OnceLock<Vec<Case>> = OnceLock::new();
static THOROUGH: OnceLock<Vec<Case>> = OnceLock::new();
fn cases(tier: Tier) -> &'static Vec<Case> {
    match tier {
        Tier::Quick => QUICK.get_or_init(|| build(Tier::Quick)),
        Tier::Thorough => THOROUGH.get_or_init(|| build(Tier::Thorough)),
    }
}

/// Part boundaries (pair indices). A real server never emits a datagram that
/// does not fit the usual 1024-byte receive buffer: if the requested number of
/// parts would, more parts are used.
pub fn gs1_cuts(state: &Gs1State, parts: usize, cut_every: Option<usize>) -> Vec<usize> {
    let n_pairs = state.pairs().len();
    if let Some(at) = cut_every {
        return vec![at.min(n_pairs)];
    }
    let mut parts = parts;
    loop {
        let cuts: Vec<usize> = (1 .. parts).map(|i| n_pairs * i / parts).collect();
        if state.datagrams(&cuts).iter().all(|d| d.len() <= 1000) || parts >= n_pairs {
            return cuts;
        }
        parts += 1;
    }
}

/// Packet boundaries (atom indices), all after the key/value block.
pub fn gs3_cuts(s: &Gs3State, packets: usize, cut_every: Option<usize>) -> Vec<usize> {
    let n = s.n_atoms();
    let first = s.first_data_atom();
    match cut_every {
        Some(at) => vec![(first + at).min(n)],
        None => (1 .. packets).map(|i| first + (n - first) * i / packets).collect(),
    }
}

pub struct C04;

impl Prop for C04 {
    fn id(&self) -> &'static str { "C04" }
    fn n_cases(&self, tier: Tier) -> usize { cases(tier).len() }
    fn case_label(&self, tier: Tier, idx: usize) -> String { cases(tier)[idx].label.clone() }
    fn rule(&self) -> String {
        "case = (GameSpy version, entry point query/query_vars, number of parts/packets or explicit cut point); within a case \
         every server state within <= bound field deviations of the default (boundary alphabets for every typed variable, \
         optional variables present/absent, 0/1/2/64 players with optional per-player keys, names with inner spaces and with spaces at their ends, 0/1/2/8 teams, extra variables) \
         is encoded by the reference server, delivered in order, and the real query's result must equal the state (typed \
         fields, every player and team in order, unused entries exactly the non-typed variables; GS1 'numplayers' accepted \
         either way). distinct_nontrivial = distinct (outcome class, wire-log shape) pairs"
            .into()
    }
    fn assumptions(&self) -> Vec<String> {
        vec![
            "wire layouts follow node-gamedig gamespy1/2/3.js (DESIGN Appendix A); GS2 tables carry their column list also with zero rows".into(),
            "values contain no backslash (GS1) / NUL; GS3 section values are non-empty; GS3 servers send all six per-player fields".into(),
        ]
    }
    fn run_case(&self, tier: Tier, idx: usize, ctx: &mut Ctx) {
        let case = cases(tier)[idx].clone();
        let a = addr();
        match case.what.clone() {
            What::One { parts, cut_every, vars } => {
                let players = case.players.clone();
                let gen = move |c: &mut crate::vnet::Chooser| gen_gs1(c, &players);
                let serve = move |s: &Gs1State| -> Box<dyn crate::vnet::Responder> {
                    Box::new(Gs1Server {
                        state: s.clone(),
                        cut_at: gs1_cuts(s, parts, cut_every),
                    })
                };
                if vars {
                    explore_decode(
                        ctx,
                        case.bound,
                        "gs1-vars",
                        gen,
                        serve,
                        || gamespy::one::query_vars(&a, None),
                        |s| s.expected_vars(),
                        |t| t,
                    );
                } else {
                    explore_decode(
                        ctx,
                        case.bound,
                        "gs1",
                        gen,
                        serve,
                        || gamespy::one::query(&a, None),
                        |s| s.expected(),
                        |mut r: gamespy::one::Response| {
                            r.unused_entries.remove("numplayers");
                            r
                        },
                    );
                }
            }
            What::Two => {
                let players = case.players.clone();
                let teams = case.teams.clone();
                explore_decode(
                    ctx,
                    case.bound,
                    "gs2",
                    move |c| gen_gs2(c, &players, &teams),
                    |s| Box::new(Gs2Server { state: s.clone() }),
                    || gamespy::two::query(&a, None),
                    |s| s.expected(),
                    |t| t,
                );
            }
            What::Three { packets, cut_every, vars } => {
                let players = case.players.clone();
                let teams = case.teams.clone();
                let gen = move |c: &mut crate::vnet::Chooser| gen_gs3(c, &players, &teams);
                let serve = move |s: &Gs3State| -> Box<dyn crate::vnet::Responder> {
                    let cuts = gs3_cuts(s, packets, cut_every);
                    Box::new(Gs3Server::new(s.clone(), cuts))
                };
                if vars {
                    explore_decode(
                        ctx,
                        case.bound,
                        "gs3-vars",
                        gen,
                        serve,
                        || gamespy::three::query_vars(&a, None),
                        |s| s.expected_vars(),
                        |t| t,
                    );
                } else {
                    explore_decode(
                        ctx,
                        case.bound,
                        "gs3",
                        gen,
                        serve,
                        || gamespy::three::query(&a, None),
                        |s| s.expected(),
                        |t| t,
                    );
                }
            }
        }
    }
}
