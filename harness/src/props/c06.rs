//! C06 — Unreal 2 replies decode strings and lists without loss or addition.

use super::common::*;
use crate::prop::Prop;
use crate::report::{Ctx, Tier};
use crate::rsm::unreal2::*;
use gamedig::protocols::types::GatherToggle;
use gamedig::protocols::unreal2 as u2;
use std::sync::OnceLock;

#[derive(Clone, Debug)]
struct Case {
    label: String,
    rule_packets: usize,
    player_packets: usize,
    rules: Vec<usize>,
    players: Vec<usize>,
    bound: usize,
    /// length-byte sweep: (length byte, position 0..7)
    sweep: Option<(u8, usize)>,
}

const POSITIONS: [&str; 7] = ["ip", "name", "map", "game_type", "rule key", "rule value", "player name"];

fn build(tier: Tier) -> Vec<Case> {
    let dev = if tier.is_thorough() { 2 } else { 1 };
    let mut v = Vec::new();
    v.push(Case {
        label: format!("unreal2 1/1 packets dev<={dev}"),
        rule_packets: 1,
        player_packets: 1,
        rules: vec![3, 0, 1, 40],
        players: vec![2, 0, 1, 64],
        bound: dev,
        sweep: None,
    });
    for rp in 1 ..= 6usize {
        for pp in 1 ..= 6usize {
            if rp == 1 && pp == 1 {
                continue;
            }
            let b = if tier.is_thorough() || rp == pp || rp == 1 || pp == 1 { 1 } else { 0 };
            v.push(Case {
                label: format!("unreal2 rules in {rp} / players in {pp} datagrams dev<={b}"),
                rule_packets: rp,
                player_packets: pp,
                rules: vec![12, 40],
                players: vec![12, 64],
                bound: b,
                sweep: None,
            });
        }
    }
    for lb in 0 ..= 255u8 {
        for pos in 0 .. POSITIONS.len() {
            v.push(Case {
                label: format!("unreal2 length byte {lb:#04x} in {}", POSITIONS[pos]),
                rule_packets: 1,
                player_packets: 1,
                rules: vec![3],
                players: vec![2],
                bound: 0,
                sweep: Some((lb, pos)),
            });
        }
    }
    v
}

static QUICK: OnceLock<Vec<Case>> = OnceLock::new();
static THOROUGH: OnceLock<Vec<Case>> = OnceLock::new();
fn cases(tier: Tier) -> &'static Vec<Case> {
    match tier {
        Tier::Quick => QUICK.get_or_init(|| build(Tier::Quick)),
        Tier::Thorough => THOROUGH.get_or_init(|| build(Tier::Thorough)),
    }
}

/// A real server never sends a datagram above the client's 1024-byte receive
/// buffer: lists that do not fit the requested number of datagrams use more.
pub fn u2_server(s: &UState, rp: usize, pp: usize) -> U2Server {
    let mut rp = rp;
    while s.rules_datagrams(rp).iter().any(|d| d.len() > 1000) && rp < s.rules.len() {
        rp += 1;
    }
    let mut pp = pp;
    while s.players_datagrams(pp).iter().any(|d| d.len() > 1000) && pp < s.players.len() {
        pp += 1;
    }
    U2Server {
        state: s.clone(),
        rule_packets: rp,
        player_packets: pp,
    }
}

pub struct C06;

impl Prop for C06 {
    fn id(&self) -> &'static str { "C06" }
    fn n_cases(&self, tier: Tier) -> usize { cases(tier).len() }
    fn case_label(&self, tier: Tier, idx: usize) -> String { cases(tier)[idx].label.clone() }
    fn rule(&self) -> String {
        "case = (datagrams per rules list 1..6, datagrams per players list 1..6) with every state within <= bound field \
         deviations (string content classes: ASCII, high Latin-1, colour escape at start/middle/end/back-to-back, control \
         bytes, UCS-2 incl. non-Latin, both empty-string spellings; numeric boundary alphabets; repeated rule keys; mutator \
         keys in both cases; ping 0 / non-0), plus the full sweep: every length byte 0x00..0xFF (Latin-1 lengths 0..127 and \
         UCS-2 lengths 0..127) in each of the seven string positions. Oracle: numerics equal, every string = sent text minus \
         colour escapes and 01..1A, every rule value under its key, every mutator, every player once and a bot iff ping == 0"
            .into()
    }
    fn assumptions(&self) -> Vec<String> {
        vec![
            "layout follows node-gamedig unreal2.js; Latin-1 payload bytes 80..9F excluded (implementation decodes windows-1252)".into(),
            "a UCS-2 string is never directly followed by a byte 01 (documented 'stray 01' skip in the implementation)".into(),
            "when the players list spans several datagrams, num_players in server info is >= the number of players listed (the client stops reading once it has that many); for a single-datagram list any announced count is used, including 0 with bots listed".into(),
        ]
    }
    fn run_case(&self, tier: Tier, idx: usize, ctx: &mut Ctx) {
        let case = cases(tier)[idx].clone();
        let a = addr();
        let (rules, players) = (case.rules.clone(), case.players.clone());
        let sweep = case.sweep;
        let player_packets_for_gen = case.player_packets;
        let gen = move |c: &mut crate::vnet::Chooser| {
            let mut s = gen_u2(c, &rules, &players);
            // the client stops reading further datagrams once it has as many players as the info reply announced: for a list
            // spread over several datagrams the announced count is kept >= the list (domain boundary). For a list that fits one
            // datagram any count is a legal state (e.g. 0 on a server with bots only, which are listed but not counted)
            if (player_packets_for_gen > 1 || s.players.len() > 8) && (s.num_players as usize) < s.players.len() {
                s.num_players = s.players.len() as u32;
            }
            if let Some((lb, pos)) = sweep {
                let u = ustr_of_len_byte(lb).unwrap();
                match pos {
                    0 => s.ip = u,
                    1 => s.name = u,
                    2 => s.map = u,
                    3 => s.game_type = u,
                    4 => s.rules[0].0 = u,
                    5 => s.rules[0].1 = u,
                    _ => s.players[0].name = u,
                }
                // an empty UCS-2 string (bare 0x80) must not be followed by a 01 byte: make the following numeric fields safe
                if s.game_port & 0xff == 1 {
                    s.game_port = 7777;
                }
                if s.num_players & 0xff == 1 {
                    s.num_players = 2;
                }
                if s.players[0].ping & 0xff == 1 {
                    s.players[0].ping = 42;
                }
            }
            s
        };
        let (rp, pp) = (case.rule_packets, case.player_packets);
        let serve = move |s: &UState| -> Box<dyn crate::vnet::Responder> {
            Box::new(u2_server(s, rp, pp))
        };
        let gs = u2::GatheringSettings {
            players: GatherToggle::Enforce,
            mutators_and_rules: GatherToggle::Enforce,
        };
        let tag = if sweep.is_some() { "unreal2-length-byte" } else { "unreal2" };
        explore_decode(
            ctx,
            case.bound,
            tag,
            gen,
            serve,
            || u2::query(&a, &gs, None),
            |s| s.expected(true, true),
            |t| t,
        );
    }
}
