//! C20 — the game-id naming checker is total and self-consistent.

use super::common::*;
use crate::prop::Prop;
use crate::report::{Ctx, Tier};
use crate::run::run_pure;
use gamedig_id_tests::{test_game_name_rules, test_single_game_rule};

const TOKENS: [&str; 27] = [
    "Dead", "cells", "of", "The", "S.T.A.L.K.E.R.", "IV", "XIV", "MIX", "2", "16", "2003", "D-Day", "Half-Life", "'44-'45", "Isaac:", "4-Ever",
    // words gluing digits and letters (split by the checker where digits and letters meet)
    "3D", "Quake4", "4x4",
    // (the last three, bracketed words inside a name and a three-part dashed number, are used with names of up to three
    // tokens in the quick tier)
    "(Remastered)", "(1999)", "1-2-3",
    // a hyphenated compound whose first part glues letters and a digit
    "F1-Racing", "R2-D2",
    // numbers beyond 16 bits, alone and as a dashed range (which the checker glues into one number word)
    "65536", "100000", "1914-1918",
];
const CORE_TOKENS: usize = 19;
// (short bracket contents too: an edition tag can be shorter than a year)
const BRACKETS: [&str; 8] = ["", " (2003)", " (java)", " (legacy 1.6)", " (HD)", " (II)", " (64)", " (X)"];
const MODS: [&str; 3] = ["", " - FiveM", " - Multi Theft Auto"];

/// Silence the checker's own printing (it prints every failure to stdout).
struct Quiet(i32);
impl Quiet {
    fn new() -> Self {
        unsafe {
            let saved = libc::dup(1);
            let null = libc::open(b"/dev/null\0".as_ptr() as *const libc::c_char, libc::O_WRONLY);
            libc::dup2(null, 1);
            libc::close(null);
            Quiet(saved)
        }
    }
}
impl Drop for Quiet {
    fn drop(&mut self) {
        use std::io::Write;
        let _ = std::io::stdout().flush();
        unsafe {
            libc::dup2(self.0, 1);
            libc::close(self.0);
        }
    }
}

fn name_from(tokens: &[usize], bracket: usize, modi: usize) -> String {
    let base: Vec<&str> = tokens.iter().map(|t| TOKENS[*t]).collect();
    format!("{}{}{}", base.join(" "), MODS[modi], BRACKETS[bracket])
}

/// ids the checker reports as expected for `name` when given the (wrong) id `probe`.
fn reported(probe: &str, name: &str) -> Result<Vec<String>, (String, String)> {
    run_pure(|| {
        let mut v: Vec<String> = test_single_game_rule(probe, name)
            .into_iter()
            .map(|f| f.expected_id)
            .collect();
        v.sort();
        v.dedup();
        v
    })
}

/// Wrong ids made from pieces of the NAME: the id with every alphanumeric run of the name that has a digit in it (a year, a number, a
/// numbered edition) appended / prepended - ids a lenient rule might let through.
fn name_edits(id: &str, name: &str) -> Vec<String> {
    let mut v = Vec::new();
    let mut run = String::new();
    for ch in name.chars().chain([' ']) {
        if ch.is_ascii_alphanumeric() {
            run.push(ch.to_ascii_lowercase());
        } else if !run.is_empty() {
            // (runs with a digit in them: years, numbers, numbered editions)
            if run.chars().any(|c| c.is_ascii_digit()) {
                v.push(format!("{id}{run}"));
                v.push(format!("{run}{id}"));
            }
            run.clear();
        }
    }
    v.sort();
    v.dedup();
    v.retain(|x| x != id);
    v
}

fn edits(id: &str) -> Vec<String> {
    let mut v = Vec::new();
    let chars: Vec<char> = id.chars().collect();
    if !chars.is_empty() {
        v.push(chars[1 ..].iter().collect());
        v.push(chars[.. chars.len() - 1].iter().collect());
        let mut up = chars.clone();
        if let Some(p) = up.iter().position(|c| c.is_ascii_lowercase()) {
            up[p] = up[p].to_ascii_uppercase();
            v.push(up.iter().collect());
        }
        if chars.len() > 1 && chars[0] != chars[1] {
            let mut sw = chars.clone();
            sw.swap(0, 1);
            v.push(sw.iter().collect());
        }
    }
    v.push(format!("{id}x"));
    v.push(format!("x{id}"));
    v
}

#[derive(Clone, Debug)]
enum What {
    /// names with this many tokens starting with token `first`
    Names { len: usize, first: usize },
    Lists { depth: usize, first: usize },
    Shipped,
}

const POOL: [&str; 12] = [
    "Day of Defeat",
    "Day of Dragons",
    "Day of Defeat (2003)",
    "Star Wars Battlefront 2 (2005)",
    "Star Wars Battlefront 2 (2017)",
    "Minecraft",
    "Minecraft (java)",
    "Minecraft (bedrock)",
    "Minecraft (legacy 1.6)",
    "Dead Cells",
    "Grand Theft Auto V - FiveM (2013)",
    "Darkest Hour: Europe '44-'45 (2008)",
];

fn cases(tier: Tier) -> Vec<(String, What)> {
    let mut v = Vec::new();
    let max = if tier.is_thorough() { 5 } else { 4 };
    for len in 1 ..= max {
        for first in 0 .. if len > 3 && !tier.is_thorough() { CORE_TOKENS } else { TOKENS.len() } {
            v.push((format!("names of {len} tokens starting with {:?}", TOKENS[first]), What::Names { len, first }));
        }
    }
    let depth = if tier.is_thorough() { 4 } else { 3 };
    for first in 0 .. POOL.len() {
        v.push((format!("lists of up to {depth} games starting with {:?}", POOL[first]), What::Lists { depth, first }));
    }
    v.push(("the shipped definitions table".into(), What::Shipped));
    v
}

pub struct C20;

impl Prop for C20 {
    fn id(&self) -> &'static str { "C20" }
    fn n_cases(&self, tier: Tier) -> usize { cases(tier).len() }
    fn case_label(&self, tier: Tier, idx: usize) -> String { cases(tier)[idx].0.clone() }
    fn rule(&self) -> String {
        "names: every sequence of 1..4 (quick) / 1..5 (thorough) tokens from a 27-token alphabet (19 core tokens in every position; the 8 extra ones in every position of names of up to 2 (quick) / 4 (thorough) tokens and as the first token of longer names) (words, capitalised words, a \
         dotted acronym, roman numerals I-forms, numbers 2/16/2003, hyphenated pairs, a '44-'45 number range, a word with \
         punctuation, a number-word hyphenation, three words gluing digits and letters) x bracket suffix {none, year, edition, 'legacy 1.6', HD, II, 64, X} x mod suffix {none, \
         ' - FiveM', ' - Multi Theft Auto'}; for each name: the checker must not panic; the ids it reports as expected must \
         not depend on which wrong id is probed; each reported id must be accepted (empty result) and each single edit of it \
         (drop first/last char, upper-case a letter, swap, append, prepend) and each id with a digit-bearing run of the name (a year, a number) appended or prepended must be rejected. lists: every sequence of up to 3 \
         (quick) / 4 (thorough) games from a 12-name pool built to collide (same acronym, same name different year, editions, \
         mod, number range), each with its self-reported id: no panic and the same verdict on a second run. The shipped GAMES \
         table passes. distinct_nontrivial = distinct names / lists evaluated"
            .into()
    }
    fn assumptions(&self) -> Vec<String> { vec!["the name grammar is the one in CONTRIBUTING.md 'Naming' (the token alphabet above instantiates each of its clauses)".into()] }
    fn run_case(&self, tier: Tier, idx: usize, ctx: &mut Ctx) {
        let (label, what) = cases(tier)[idx].clone();
        let _quiet = Quiet::new();
        match what {
            What::Names { len, first } => {
                let mut toks = vec![0usize; len];
                toks[0] = first;
                let mut n = 0u64;
                loop {
                    for b in 0 .. BRACKETS.len() {
                        // quick tier: the four short bracket contents with names of up to 3 tokens (the bracket is handled
                        // before and independently of the words); all of them with every length up to 4 in thorough
                        if b >= 4 && ((len > 3 && !tier.is_thorough()) || len > 4) {
                            continue;
                        }
                        for m in 0 .. MODS.len() {
                            let name = name_from(&toks, b, m);
                            let key: Vec<u32> = toks.iter().map(|t| *t as u32).chain([b as u32, m as u32]).collect();
                            if matches!(&ctx.replay, Some(r) if *r != key) {
                                continue;
                            }
                            n += 1;
                            if n % 512 == 0 {
                                crate::crumb::mark(ctx.case, &[(n / 512) as u32]);
                            }
                            ctx.distinct_key(&name);
                            let e1 = reported("zzzwrong", &name);
                            let e2 = reported("Q", &name);
                            let expected = match (e1, e2) {
                                (Ok(a), Ok(b2)) => {
                                    // "Q" additionally reports its lower-cased self: ignore that entry
                                    let b3: Vec<String> = b2.into_iter().filter(|x| x != "q").collect();
                                    let a3: Vec<String> = a.iter().filter(|x| *x != "q").cloned().collect();
                                    if a3 != b3 {
                                        ctx.violation("expected-id-depends-on-probe", &key, format!("name {name:?}"), format!("probing with \"zzzwrong\": {a:?}; with \"Q\": {b3:?}"), "the same expected ids", vec![]);
                                    }
                                    a
                                }
                                (Err((msg, loc)), _) | (_, Err((msg, loc))) => {
                                    ctx.violation(format!("checker-panics:{}", panic_kind(&msg)), &key, format!("name {name:?}"), format!("PANIC at {loc}: {msg}"), "a list of failures", vec![]);
                                    continue;
                                }
                            };
                            for e in &expected {
                                match run_pure(|| test_single_game_rule(e, &name)) {
                                    Ok(f) if f.is_empty() => {}
                                    Ok(f) => {
                                        ctx.violation("self-reported-id-rejected", &key, format!("name {name:?}, id {e:?} (reported as expected by the checker itself)"), format!("rejected, expecting {:?}", f.iter().map(|x| x.expected_id.clone()).collect::<Vec<_>>()), "accepted", vec![]);
                                    }
                                    Err((msg, loc)) => ctx.violation(format!("checker-panics:{}", panic_kind(&msg)), &key, format!("name {name:?} id {e:?}"), format!("PANIC at {loc}: {msg}"), "a verdict", vec![]),
                                }
                                for c in edits(e).into_iter().chain(name_edits(e, &name)) {
                                    if expected.contains(&c) {
                                        continue;
                                    }
                                    match run_pure(|| test_single_game_rule(&c, &name)) {
                                        Ok(f) if !f.is_empty() => {}
                                        Ok(_) => ctx.violation("wrong-id-accepted", &key, format!("name {name:?}, id {c:?}"), "accepted", format!("rejected (expected ids {expected:?})"), vec![]),
                                        Err((msg, loc)) => ctx.violation(format!("checker-panics:{}", panic_kind(&msg)), &key, format!("name {name:?} id {c:?}"), format!("PANIC at {loc}: {msg}"), "a verdict", vec![]),
                                    }
                                }
                            }
                            if n == 1 {
                                ctx.sample(serde_json::json!({"case": label, "name": name, "expected_ids": expected}));
                            }
                        }
                    }
                    // next token sequence (first token fixed)
                    // quick tier: the extra tokens appear in every position of names of up to two tokens and as the first token of
                    // names of three; thorough: everywhere
                    // (names of five tokens, thorough only: the extra tokens as the first token, the short brackets)
                    let limit = if (len > 2 && !tier.is_thorough()) || len > 4 { CORE_TOKENS } else { TOKENS.len() };
                    let mut i = len;
                    loop {
                        if i == 1 {
                            break;
                        }
                        i -= 1;
                        toks[i] += 1;
                        if toks[i] < limit {
                            break;
                        }
                        toks[i] = 0;
                    }
                    if i == 1 && (len == 1 || toks[1 ..].iter().all(|t| *t == 0)) {
                        break;
                    }
                }
                ctx.counters.evaluations += n;
                ctx.counters.states += n;
                ctx.counters.transitions += n * 10;
            }
            What::Lists { depth, first } => {
                // ids: what the checker expects for each name in isolation
                let ids: Vec<String> = POOL
                    .iter()
                    .map(|n| reported("zzzwrong", n).ok().and_then(|v| v.last().cloned()).unwrap_or_else(|| "x".into()))
                    .collect();
                let mut n = 0u64;
                let mut stack: Vec<Vec<usize>> = vec![vec![first]];
                while let Some(seq) = stack.pop() {
                    n += 1;
                    if n % 256 == 0 {
                        crate::crumb::mark(ctx.case, &[(n / 256) as u32]);
                    }
                    let key: Vec<u32> = seq.iter().map(|x| *x as u32).collect();
                    if ctx.replay.is_none() || ctx.replay.as_ref() == Some(&key) {
                        ctx.distinct_key(&seq);
                        let games: Vec<(&str, &str)> = seq.iter().map(|i| (ids[*i].as_str(), POOL[*i])).collect();
                        let r1 = run_pure(|| test_game_name_rules(games.clone().into_iter()).into_iter().map(|f| (f.game_id, f.expected_id)).collect::<Vec<_>>());
                        let r2 = run_pure(|| test_game_name_rules(games.clone().into_iter()).into_iter().map(|f| (f.game_id, f.expected_id)).collect::<Vec<_>>());
                        match (&r1, &r2) {
                            (Ok(a), Ok(b)) if a == b => {
                                if n == 2 {
                                    ctx.sample(serde_json::json!({"case": label, "list": games, "failures": a}));
                                }
                            }
                            (Ok(a), Ok(b)) => ctx.violation("list-verdict-not-deterministic", &key, format!("list {games:?}"), format!("{a:?} then {b:?}"), "the same verdict", vec![]),
                            (Err((msg, loc)), _) | (_, Err((msg, loc))) => ctx.violation(format!("checker-panics:{}", panic_kind(msg)), &key, format!("list {games:?}"), format!("PANIC at {loc}: {msg}"), "a list of failures", vec![]),
                        }
                    }
                    if seq.len() < depth {
                        for i in 0 .. POOL.len() {
                            let mut s = seq.clone();
                            s.push(i);
                            stack.push(s);
                        }
                    }
                }
                ctx.counters.evaluations += n;
                ctx.counters.states += n;
                ctx.counters.transitions += n;
            }
            What::Shipped => {
                let games: Vec<(&str, &str)> = gamedig::GAMES.entries().map(|(k, g)| (*k, g.name)).collect();
                let r = run_pure(|| test_game_name_rules(games.clone().into_iter()));
                ctx.counters.evaluations += 1;
                ctx.counters.states += games.len() as u64;
                ctx.counters.transitions += games.len() as u64;
                ctx.distinct_key(&games.len());
                ctx.distinct_key(&"shipped");
                match r {
                    Ok(f) if f.is_empty() => ctx.sample(serde_json::json!({"case": label, "games": games.len(), "failures": 0})),
                    Ok(f) => ctx.violation("shipped-table-fails", &[], format!("{} of {} definitions", f.len(), games.len()), clip(&format!("{:?}", f.iter().map(|x| (x.game_id.clone(), x.expected_id.clone())).collect::<Vec<_>>()), 600), "no failures", vec![]),
                    Err((msg, loc)) => ctx.violation(format!("checker-panics:{}", panic_kind(&msg)), &[], "shipped table", format!("PANIC at {loc}: {msg}"), "a verdict", vec![]),
                }
            }
        }
    }
}
