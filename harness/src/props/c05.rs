//! C05 — Quake 1/2/3 status replies yield all variables and players.

use super::common::*;
use crate::prop::Prop;
use crate::report::{Ctx, Tier};
use crate::rsm::quake::*;
use gamedig::protocols::quake;

#[derive(Clone, Debug)]
struct Case {
    label: String,
    ver: Ver,
    players: Vec<usize>,
    spaces: bool,
    bound: usize,
}

fn cases(tier: Tier) -> Vec<Case> {
    let dev = if tier.is_thorough() { 2 } else { 1 };
    let mut v = Vec::new();
    for ver in [Ver::One, Ver::Two, Ver::Three] {
        v.push(Case {
            label: format!("quake {ver:?} dev<={dev}"),
            ver,
            players: vec![2, 0, 1, 64],
            spaces: false,
            bound: dev,
        });
        for n in [0usize, 1, 2, 3, 16, 64] {
            v.push(Case {
                label: format!("quake {ver:?} {n} players dev<=1"),
                ver,
                players: vec![n],
                spaces: false,
                bound: 1,
            });
        }
        v.push(Case {
            label: format!("quake {ver:?} quoted names containing spaces dev<=1"),
            ver,
            players: vec![2, 1],
            spaces: true,
            bound: 1,
        });
    }
    v
}

pub struct C05;

impl Prop for C05 {
    fn id(&self) -> &'static str { "C05" }
    fn n_cases(&self, tier: Tier) -> usize { cases(tier).len() }
    fn case_label(&self, tier: Tier, idx: usize) -> String { cases(tier)[idx].label.clone() }
    fn rule(&self) -> String {
        "case = (Quake version, player-count stratum, name stratum); within a case every status reply within <= bound field \
         deviations of the default (both spellings of each aliased key present/absent/both, optional version, extra variables (also with upper-case letters in their keys), \
         variable order rotated, 0..64 player lines, quoted/unquoted names, optional address, the reply ending after the last line feed / with a NUL after it / directly after the last line without a line feed) is sent by \
         the reference server and the real query must return name/map/max/version, one player per line with that line's \
         fields, players_online = number of lines and all other variables unchanged. distinct_nontrivial = distinct (outcome \
         class, wire-log shape) pairs"
            .into()
    }
    fn assumptions(&self) -> Vec<String> {
        vec!["reply layout follows node-gamedig quake1/2/3.js; values contain no backslash or newline".into()]
    }
    fn run_case(&self, tier: Tier, idx: usize, ctx: &mut Ctx) {
        let case = cases(tier)[idx].clone();
        let a = addr();
        let players = case.players.clone();
        let (ver, spaces) = (case.ver, case.spaces);
        let gen = move |c: &mut crate::vnet::Chooser| gen_quake(c, ver, &players, spaces);
        let serve = |s: &QState| -> Box<dyn crate::vnet::Responder> { Box::new(QuakeServer { state: s.clone() }) };
        let tag = format!("quake{}{}", match ver { Ver::One => 1, Ver::Two => 2, Ver::Three => 3 }, if spaces { "-spaced-names" } else { "" });
        match ver {
            Ver::One => explore_decode(ctx, case.bound, &tag, gen, serve, || quake::one::query(&a, None), |s| s.expected_one(), |t| t),
            Ver::Two => explore_decode(ctx, case.bound, &tag, gen, serve, || quake::two::query(&a, None), |s| s.expected_two(), |t| t),
            Ver::Three => explore_decode(ctx, case.bound, &tag, gen, serve, || quake::three::query(&a, None), |s| s.expected_two(), |t| t),
        }
    }
}
