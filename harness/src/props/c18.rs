//! C18 — settings are validated; no accepted configuration can panic.

use super::common::*;
use crate::prop::Prop;
use crate::report::{Ctx, Tier};
use crate::run::{run_pure, run_query, Outcome};
use crate::targets::*;
use crate::vnet::{render_log, Chooser, Faithful, Silent};
use clap::Parser;
use gamedig::protocols::types::TimeoutSettings;
use gamedig::GDErrorKind;
use std::sync::OnceLock;
use std::time::Duration;

pub const DURS: [Option<Duration>; 5] = [
    None,
    Some(Duration::ZERO),
    Some(Duration::from_nanos(1)),
    Some(Duration::from_millis(1)),
    Some(Duration::from_secs(u64::MAX)),
];
pub const RETRIES: [usize; 5] = [0, 1, 2, usize::MAX - 1, usize::MAX];
pub const MANY_RETRIES: [usize; 2] = [100, 1000];

#[derive(Parser, Debug)]
struct CliLike {
    #[command(flatten)]
    timeouts: TimeoutSettings,
}

/// The extra request settings as a command line gives them.
#[derive(Parser, Debug)]
struct ExtraCliLike {
    #[command(flatten)]
    extra: gamedig::protocols::types::ExtraRequestSettings,
}

fn dur_name(d: Option<Duration>) -> String {
    match d {
        None => "None".into(),
        Some(d) if d.is_zero() => "0".into(),
        Some(d) if d == Duration::from_nanos(1) => "1ns".into(),
        Some(d) if d == Duration::from_millis(1) => "1ms".into(),
        Some(_) => "u64::MAX s".into(),
    }
}

#[derive(Clone)]
enum What {
    Construction,
    Target(usize),
    /// every combination of extra request settings through the generic dispatch of this game
    Extra(&'static str),
    /// the HTTP game (Eco) over real loopback TCP: module entry point and generic dispatch
    Eco,
}

fn targets() -> &'static Vec<Target> {
    static T: OnceLock<Vec<Target>> = OnceLock::new();
    T.get_or_init(|| {
        protocol_targets()
            .into_iter()
            .filter(|t| t.honours_timeout)
            .filter(|t| t.toggles.map_or(true, |(p, r)| p == r))
            .collect()
    })
}

fn cases() -> Vec<(String, What)> {
    let mut v = vec![("construction paths: new / Default / serde / clap".to_string(), What::Construction)];
    for (i, t) in targets().iter().enumerate() {
        v.push((format!("every accepted configuration through {}", t.name), What::Target(i)));
    }
    for id in ["teamfortress2", "counterstrike", "killingfloor", "minecraftjava", "minecraft", "minecraftbedrock", "crysiswars", "q3a", "mindustry"] {
        v.push((format!("every combination of extra request settings through the generic dispatch of '{id}'"), What::Extra(id)));
    }
    v.push(("every accepted configuration through the HTTP game (eco::query_with_timeout and the generic dispatch of 'eco') over loopback".to_string(), What::Eco));
    v
}

pub struct C18;

impl Prop for C18 {
    fn id(&self) -> &'static str { "C18" }
    fn n_cases(&self, _tier: Tier) -> usize { cases().len() }
    fn case_label(&self, _tier: Tier, idx: usize) -> String { cases()[idx].0.clone() }
    fn rule(&self) -> String {
        // (path 3c: the extra request settings' flags through clap - every accepted command line arrives unchanged)
        "full product (read, write, connect) in {None, 0, 1 ns, 1 ms, u64::MAX s}^3 x retries in {0, 1, 2, usize::MAX-1, \
         usize::MAX} = 625 configurations x construction path {TimeoutSettings::new, Default, serde_json deserialisation, clap \
         flags (a harness-side Parser flattening TimeoutSettings; second-granularity values only)}: a zero duration must be \
         rejected (InvalidInput / deserialisation error / clap error) on every path. Every configuration accepted by `new` is \
         then used for a query through every protocol entry point that takes timeout settings (and every combination of extra request settings — host name, protocol version, gather toggles, app-id check — through the generic dispatch of nine games; the HTTP game Eco through its module entry point and the generic dispatch over real loopback TCP, against a serving and a closed port), once against the valid \
         reference server and, for retries <= 2 and for retries 100 and 1000, once against a silent one (every retry is used): no panic. The hook keeps the real apply_timeout \
         running on a real socket object. distinct_nontrivial = distinct (configuration, outcome class) pairs"
            .into()
    }
    fn assumptions(&self) -> Vec<String> {
        vec!["the real gamedig_cli binary's flag handling is exercised by C19 (invalid invocations)".into()]
    }
    fn run_case(&self, _tier: Tier, idx: usize, ctx: &mut Ctx) {
        let (label, what) = cases()[idx].clone();
        match what {
            What::Construction => {
                for r in DURS {
                    for w in DURS {
                        for c in DURS {
                            for retries in RETRIES {
                                let any_zero = [r, w, c].iter().any(|d| matches!(d, Some(d) if d.is_zero()));
                                let cfg = format!("read={} write={} connect={} retries={retries}", dur_name(r), dur_name(w), dur_name(c));
                                ctx.counters.evaluations += 1;
                                ctx.counters.states += 1;
                                ctx.counters.transitions += 3;
                                // path 1: new
                                let res = run_pure(|| TimeoutSettings::new(r, w, c, retries));
                                ctx.distinct_key(&(cfg.clone(), "new", res.as_ref().map(|x| x.is_ok()).unwrap_or(false)));
                                match res {
                                    Ok(Ok(ts)) => {
                                        if any_zero {
                                            ctx.violation("zero-duration-accepted:new", &[], cfg.clone(), "Ok(..)", "Err(InvalidInput)", vec![]);
                                        } else if ts.get_read() != r || ts.get_write() != w || ts.get_connect() != c || ts.get_retries() != retries {
                                            ctx.violation("settings-not-preserved:new", &[], cfg.clone(), format!("{ts:?}"), "the given values", vec![]);
                                        }
                                    }
                                    Ok(Err(e)) => {
                                        if !any_zero || e.kind != GDErrorKind::InvalidInput {
                                            ctx.violation("valid-settings-rejected:new", &[], cfg.clone(), format!("Err({:?})", e.kind), if any_zero { "Err(InvalidInput)" } else { "Ok(..)" }, vec![]);
                                        }
                                    }
                                    Err((msg, loc)) => ctx.violation("construction-panics:new", &[], cfg.clone(), format!("PANIC at {loc}: {msg}"), "Ok or Err", vec![]),
                                }
                                // path 2: serde
                                let js = |d: Option<Duration>| match d {
                                    None => serde_json::Value::Null,
                                    Some(d) => serde_json::json!({"secs": d.as_secs(), "nanos": d.subsec_nanos()}),
                                };
                                let doc = serde_json::json!({"connect": js(c), "read": js(r), "write": js(w), "retries": retries});
                                let res = run_pure(|| serde_json::from_value::<TimeoutSettings>(doc.clone()));
                                ctx.distinct_key(&(cfg.clone(), "serde", res.as_ref().map(|x| x.is_ok()).unwrap_or(false)));
                                match res {
                                    Ok(Ok(_)) if any_zero => ctx.violation("zero-duration-accepted:serde", &[], cfg.clone(), format!("deserialising {doc} succeeds"), "an error", vec![]),
                                    Ok(Ok(ts)) => {
                                        if ts.get_read() != r || ts.get_write() != w || ts.get_connect() != c || ts.get_retries() != retries {
                                            ctx.violation("settings-not-preserved:serde", &[], cfg.clone(), format!("{ts:?}"), "the given values", vec![]);
                                        }
                                    }
                                    Ok(Err(e)) if !any_zero => ctx.violation("valid-settings-rejected:serde", &[], cfg.clone(), e.to_string(), "Ok(..)", vec![]),
                                    Ok(Err(_)) => {}
                                    Err((msg, loc)) => ctx.violation("construction-panics:serde", &[], cfg.clone(), format!("PANIC at {loc}: {msg}"), "Ok or Err", vec![]),
                                }
                                // path 3: clap (whole seconds only)
                                let secs = |d: Option<Duration>| -> Option<Option<String>> {
                                    match d {
                                        None => Some(None), // flag omitted: default
                                        Some(d) if d.subsec_nanos() == 0 => Some(Some(d.as_secs().to_string())),
                                        _ => None,
                                    }
                                };
                                if let (Some(rs), Some(ws), Some(cs)) = (secs(r), secs(w), secs(c)) {
                                    let mut args: Vec<String> = vec!["prog".into()];
                                    for (flag, v) in [("--read-timeout", rs), ("--write-timeout", ws), ("--connect-timeout", cs)] {
                                        if let Some(v) = v {
                                            args.push(flag.into());
                                            args.push(v);
                                        }
                                    }
                                    args.push("--retries".into());
                                    args.push(retries.to_string());
                                    let res = run_pure(|| CliLike::try_parse_from(args.clone()));
                                    ctx.distinct_key(&(cfg.clone(), "clap", res.as_ref().map(|x| x.is_ok()).unwrap_or(false)));
                                    match res {
                                        Ok(Ok(_)) if any_zero => ctx.violation("zero-duration-accepted:clap", &[], cfg.clone(), format!("parsing {args:?} succeeds"), "a clap error", vec![]),
                                        Ok(Ok(_)) => {}
                                        Ok(Err(e)) if !any_zero => ctx.violation("valid-settings-rejected:clap", &[], cfg.clone(), clip(&e.to_string(), 200), "Ok(..)", vec![]),
                                        Ok(Err(_)) => {}
                                        Err((msg, loc)) => ctx.violation("construction-panics:clap", &[], cfg.clone(), format!("PANIC at {loc}: {msg}"), "Ok or Err", vec![]),
                                    }
                                }
                            }
                        }
                    }
                }
                // path 3c: the extra request settings through their flags: every accepted command line must arrive unchanged
                {
                    use gamedig::protocols::types::{ExtraRequestSettings as X, GatherToggle as G};
                    let mut lines: Vec<(Vec<&str>, X)> = vec![(vec![], X::default())];
                    for (text, v) in [("47", 47), ("0", 0), ("1", 1), ("765", 765), ("2147483647", i32::MAX)] {
                        lines.push((vec!["--protocol-version", text], X::default().set_protocol_version(v)));
                    }
                    for h in ["mc.example.org", "x", "zürich.example"] {
                        lines.push((vec!["--hostname", h], X::default().set_hostname(h.to_string())));
                    }
                    for (text, g) in [("skip", G::Skip), ("try", G::Try), ("enforce", G::Enforce)] {
                        lines.push((vec!["--gather-players", text], X::default().set_gather_players(g)));
                        lines.push((vec!["--gather-rules", text], X::default().set_gather_rules(g)));
                    }
                    for (text, b) in [("true", true), ("false", false)] {
                        lines.push((vec!["--check-app-id", text], X::default().set_check_app_id(b)));
                    }
                    lines.push((vec!["--hostname", "h", "--protocol-version", "47", "--gather-players", "try", "--gather-rules", "skip", "--check-app-id", "false"], X::default().set_hostname("h".into()).set_protocol_version(47).set_gather_players(G::Try).set_gather_rules(G::Skip).set_check_app_id(false)));
                    for (args, want) in lines {
                        ctx.counters.evaluations += 1;
                        ctx.counters.states += 1;
                        let mut argv = vec!["prog"];
                        argv.extend(args.iter().copied());
                        let res = run_pure(|| ExtraCliLike::try_parse_from(argv.clone()));
                        ctx.distinct_key(&("extra-clap", argv.join(" ")));
                        match res {
                            Ok(Ok(c)) if c.extra == want => {}
                            Ok(Ok(c)) => ctx.violation("extra-settings-not-preserved:clap", &[], argv.join(" "), format!("{:?}", c.extra), format!("{want:?}"), vec![]),
                            Ok(Err(e)) => ctx.violation("valid-extra-settings-rejected:clap", &[], argv.join(" "), clip(&e.to_string(), 200), "accepted", vec![]),
                            Err((msg, loc)) => ctx.violation("construction-panics:clap-extra-settings", &[], argv.join(" "), format!("PANIC at {loc}: {}", clip(&msg, 200)), "Ok or Err", vec![]),
                        }
                    }
                }
                // path 3b: clap with edge-case value texts: whatever is accepted must be a non-zero duration, and parsing must not panic
                for flag in ["--read-timeout", "--write-timeout", "--connect-timeout"] {
                    for text in ["0", "00", "+0", "-0", "0.0", "0.0000000001", "1e-12", "0.9", "1.5", "1e3", "1e20", "1e400", "inf", "nan", "18446744073709551615", "18446744073709551616", "99999999999999999999999", " 1", "1 ", "", "0x10", "१"] {
                        ctx.counters.evaluations += 1;
                        ctx.counters.states += 1;
                        let args = vec!["prog".to_string(), format!("{flag}={text}")];
                        let res = run_pure(|| CliLike::try_parse_from(args.clone()));
                        ctx.distinct_key(&(flag, text, res.as_ref().map(|x| x.is_ok()).unwrap_or(false)));
                        match res {
                            Ok(Ok(c)) => {
                                let t = c.timeouts;
                                if [t.get_read(), t.get_write(), t.get_connect()].iter().any(|d| matches!(d, Some(d) if d.is_zero())) {
                                    ctx.violation("zero-duration-accepted:clap", &[], format!("{flag}={text:?}"), format!("{t:?}"), "a clap error or a non-zero duration", vec![]);
                                }
                            }
                            Ok(Err(_)) => {}
                            Err((msg, loc)) => ctx.violation("construction-panics:clap", &[], format!("{flag}={text:?}"), format!("PANIC at {loc}: {msg}"), "a clap error", vec![]),
                        }
                    }
                }
                // path 4: Default
                let d = TimeoutSettings::default();
                if [d.get_read(), d.get_write(), d.get_connect()].iter().any(|x| matches!(x, Some(x) if x.is_zero())) {
                    ctx.violation("zero-duration-accepted:default", &[], "Default", format!("{d:?}"), "non-zero durations", vec![]);
                }
                ctx.sample(serde_json::json!({"case": label, "configurations": 625, "paths": ["new", "serde", "clap", "default"]}));
            }
            What::Extra(id) => {
                use gamedig::protocols::types::{ExtraRequestSettings, GatherToggle};
                let game = gamedig::GAMES.get(id).unwrap();
                let fam = family_of_game(game).unwrap();
                // (long names: ASCII only, and with a two- / three-byte character straddling each of the byte offsets 253..257,
                // i.e. around the 255 of the handshake's String(255))
                let mut hosts: Vec<Option<String>> = vec![None, Some(String::new()), Some(crate::rsm::long_string(300)), Some("zürich.例え".to_string()), Some("é".repeat(200)), Some("例".repeat(100))];
                for pad in 252 ..= 256usize {
                    hosts.push(Some(format!("{}é{}", "a".repeat(pad), "b".repeat(20))));
                    hosts.push(Some(format!("{}例{}", "a".repeat(pad), "b".repeat(20))));
                }
                let versions: [Option<i32>; 5] = [None, Some(i32::MIN), Some(-1), Some(0), Some(i32::MAX)];
                let toggles: [Option<GatherToggle>; 4] = [None, Some(GatherToggle::Skip), Some(GatherToggle::Try), Some(GatherToggle::Enforce)];
                let checks: [Option<bool>; 3] = [None, Some(true), Some(false)];
                let tss = [None, TimeoutSettings::new(Some(Duration::from_nanos(1)), Some(Duration::from_nanos(1)), Some(Duration::from_nanos(1)), 2).ok()];
                let mut n = 0u64;
                for (hi, h) in hosts.iter().enumerate() {
                    for (vi, pv) in versions.iter().enumerate() {
                        for (pi, gp) in toggles.iter().enumerate() {
                            for (ri, gr) in toggles.iter().enumerate() {
                                for (ci, chk) in checks.iter().enumerate() {
                                    for (ti, ts) in tss.iter().enumerate() {
                                        n += 1;
                                        let key = vec![hi as u32, vi as u32, pi as u32, ri as u32, ci as u32, ti as u32];
                                        if matches!(&ctx.replay, Some(rp) if *rp != key) {
                                            continue;
                                        }
                                        let extra = ExtraRequestSettings { hostname: h.clone(), protocol_version: *pv, gather_players: *gp, gather_rules: *gr, check_app_id: *chk };
                                        let server = if matches!(fam, Family::McAuto) { mc_server(31) } else { (server_for_game(game).unwrap())() };
                                        let e2 = extra.clone();
                                        let x = run_query(server, Box::new(Faithful), Chooser::new(&[]), || {
                                            gamedig::query_with_timeout_and_extra_settings(game, &IP4, Some(PORT), *ts, Some(e2)).map(|r| to_json(&r.as_json()))
                                        });
                                        ctx.account(&x, 0);
                                        ctx.distinct_key(&(key.clone(), x.outcome.class()));
                                        if !x.outcome.is_total() {
                                            ctx.violation(
                                                format!("accepted-extra-settings-{}", if matches!(x.outcome, Outcome::Panic { .. }) { "panic" } else { "hang" }),
                                                &key,
                                                format!("game '{id}' with {extra:?} and timeouts {}", if ts.is_some() { "1 ns / retries 2" } else { "None" }),
                                                x.outcome.describe_json(),
                                                "Ok or Err",
                                                render_log(&x.log),
                                            );
                                        }
                                    }
                                }
                            }
                        }
                    }
                }
                ctx.sample(serde_json::json!({"case": label, "combinations": n}));
            }
            What::Eco => {
                let ip = std::net::IpAddr::V4(std::net::Ipv4Addr::LOCALHOST);
                let body = super::eco::gen_eco(&mut Chooser::new(&[])).json().into_bytes();
                let game = gamedig::GAMES.get("eco").unwrap();
                let mut n = 0u64;
                for r in DURS {
                    for w in DURS {
                        for c in DURS {
                            for retries in RETRIES {
                                let Ok(ts) = TimeoutSettings::new(r, w, c, retries) else { continue };
                                let cfg = format!("read={} write={} connect={} retries={retries}", dur_name(r), dur_name(w), dur_name(c));
                                for (path, refused) in [("module", false), ("module", true), ("generic", false), ("generic", true)] {
                                    n += 1;
                                    let key = vec![DURS.iter().position(|x| *x == r).unwrap() as u32, DURS.iter().position(|x| *x == w).unwrap() as u32, DURS.iter().position(|x| *x == c).unwrap() as u32, RETRIES.iter().position(|x| *x == retries).unwrap() as u32, refused as u32, (path == "generic") as u32];
                                    if matches!(&ctx.replay, Some(rp) if *rp != key) {
                                        continue;
                                    }
                                    crate::crumb::mark(ctx.case, &key);
                                    let port = if refused { closed_port(ip, true).unwrap_or(9) } else { super::eco::serve_once(ip, body.clone(), 0).0 };
                                    let res = run_pure(|| {
                                        if path == "module" {
                                            gamedig::games::eco::query_with_timeout(&ip, Some(port), &Some(ts)).map(|_| ()).map_err(|e| e.kind)
                                        } else {
                                            // (every second configuration also carries extra request settings, which the HTTP game converts too)
                                            let extra = if n % 2 == 0 { Some(gamedig::protocols::types::ExtraRequestSettings::default().set_hostname("eco.example.org".into()).set_check_app_id(false)) } else { None };
                                            gamedig::query_with_timeout_and_extra_settings(game, &ip, Some(port), Some(ts), extra).map(|_| ()).map_err(|e| e.kind)
                                        }
                                    });
                                    ctx.counters.evaluations += 1;
                                    ctx.counters.states += 1;
                                    ctx.counters.transitions += 1;
                                    let class = match &res {
                                        Ok(Ok(())) => "ok".to_string(),
                                        Ok(Err(k)) => format!("err:{k:?}"),
                                        Err(_) => "panic".to_string(),
                                    };
                                    ctx.distinct_key(&(cfg.clone(), path, refused, class));
                                    if let Err((msg, loc)) = res {
                                        let file = loc.rsplit_once(':').map_or(loc.as_str(), |p| p.0);
                                        ctx.violation(
                                            format!("accepted-settings-panic:{file}:{}", panic_kind(&msg)),
                                            &key,
                                            format!("{cfg} through the {path} entry point of eco against a {} port", if refused { "closed" } else { "serving" }),
                                            format!("PANIC at {loc}: {msg}"),
                                            "Ok or Err",
                                            vec![],
                                        );
                                    }
                                }
                            }
                        }
                    }
                }
                ctx.sample(serde_json::json!({"case": label, "executions": n}));
            }
            What::Target(i) => {
                let t = targets()[i].clone();
                let mut n = 0u64;
                for r in DURS {
                    for w in DURS {
                        for c in DURS {
                            // retries 100 and 1000 only against the silent server: every one of them is really used there
                            let all_retries: Vec<usize> = RETRIES.iter().copied().chain(MANY_RETRIES).collect();
                            for retries in all_retries.iter().copied() {
                                let Ok(ts) = TimeoutSettings::new(r, w, c, retries) else { continue };
                                let cfg = format!("read={} write={} connect={} retries={retries}", dur_name(r), dur_name(w), dur_name(c));
                                for silent in [false, true] {
                                    if silent && retries > 2 && !MANY_RETRIES.contains(&retries) {
                                        continue;
                                    }
                                    if !silent && MANY_RETRIES.contains(&retries) {
                                        continue;
                                    }
                                    n += 1;
                                    let key = vec![DURS.iter().position(|x| *x == r).unwrap() as u32, DURS.iter().position(|x| *x == w).unwrap() as u32, DURS.iter().position(|x| *x == c).unwrap() as u32, all_retries.iter().position(|x| *x == retries).unwrap() as u32, silent as u32];
                                    if matches!(&ctx.replay, Some(rp) if *rp != key) {
                                        continue;
                                    }
                                    crate::crumb::mark(ctx.case, &key);
                                    // auto-detecting entry points: a server that speaks every variant (no attempt times out)
                                    let server: Box<dyn crate::vnet::Responder> = if silent {
                                        Box::new(Silent)
                                    } else if matches!(t.family, Family::McAuto | Family::McLegacyAuto) {
                                        mc_server(31)
                                    } else {
                                        (t.server)()
                                    };
                                    // the horizon follows the attempts the settings ask for (auto-detection tries several variants)
                                    let wide = MANY_RETRIES.contains(&retries);
                                    let x = crate::vnet::with_horizon(if wide { 400_000 } else { 8192 }, if wide { 16 * (retries + 1) + 64 } else { 64 }, || {
                                        run_query(server, Box::new(Faithful), Chooser::new(&[]), || (t.call)(Some(ts)))
                                    });
                                    ctx.account(&x, 0);
                                    ctx.distinct_key(&(cfg.clone(), silent, x.outcome.class()));
                                    match &x.outcome {
                                        Outcome::Ok(_) | Outcome::Err(..) => {}
                                        Outcome::Panic { msg, loc } => {
                                            let file = loc.rsplit_once(':').map_or(loc.as_str(), |p| p.0);
                                            ctx.violation(
                                                format!("accepted-settings-panic:{file}:{}", panic_kind(msg)),
                                                &key,
                                                format!("{cfg} against a {} server", if silent { "silent" } else { "valid" }),
                                                format!("PANIC at {loc}: {msg}"),
                                                "Ok or Err",
                                                render_log(&x.log),
                                            );
                                        }
                                        other => {
                                            ctx.violation("accepted-settings-hang", &key, format!("{cfg} against a {} server", if silent { "silent" } else { "valid" }), other.describe_json(), "Ok or Err", render_log(&x.log));
                                        }
                                    }
                                }
                            }
                        }
                    }
                }
                ctx.sample(serde_json::json!({"case": label, "executions": n}));
            }
        }
    }
}
