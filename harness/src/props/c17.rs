//! C17 — packet reader and wire codecs conform to a reference model.
//!
//! Reader: explicit-state search (stateright) whose transition function calls
//! the real `Buffer` methods; codecs: exhaustive enumeration.

use super::common::*;
use crate::prop::Prop;
use crate::report::{Ctx, Tier};
use crate::run::run_pure;
use byteorder::{BigEndian, ByteOrder, LittleEndian};
use gamedig::verif_hook::{
    error_by_expected_size,
    minecraft as mcw,
    u8_lower_upper,
    Buffer,
    Utf16Decoder,
    Utf8Decoder,
    Utf8LengthPrefixedDecoder,
    Unreal2StringDecoder,
};
use stateright::{Checker, Model, Property};
use std::sync::Mutex;

const SYMS: [u8; 6] = [0x00, 0x01, 0x41, 0x7F, 0x80, 0xFF];

#[derive(Clone, Debug, Hash, PartialEq, Eq)]
pub struct RState {
    pub packet: Vec<u8>,
    pub cursor: usize,
    pub big: bool,
}

#[derive(Clone, Copy, Debug, Hash, PartialEq, Eq)]
pub enum Op {
    ReadU8,
    ReadI8,
    ReadU16,
    ReadI16,
    ReadU32,
    ReadI32,
    ReadU64,
    ReadI64,
    ReadF32,
    ReadF64,
    Move(isize),
    Utf8(Option<u8>),
    LenPrefixed(Option<u8>),
    Utf16Be(Option<[u8; 2]>),
    Utf16Le(Option<[u8; 2]>),
    Switch(usize),
    Remaining,
}

pub const OPS: [Op; 33] = [
    Op::ReadU8,
    Op::ReadI8,
    Op::ReadU16,
    Op::ReadI16,
    Op::ReadU32,
    Op::ReadI32,
    Op::ReadU64,
    Op::ReadI64,
    Op::ReadF32,
    Op::ReadF64,
    Op::Move(1),
    Op::Move(-1),
    Op::Move(2),
    Op::Move(-2),
    Op::Move(7),
    Op::Move(-7),
    Op::Move(isize::MIN),
    Op::Move(isize::MAX),
    Op::Utf8(None),
    Op::Utf8(Some(0x41)),
    Op::LenPrefixed(None),
    Op::LenPrefixed(Some(0x41)),
    Op::Utf16Be(None),
    Op::Utf16Be(Some([0x00, 0x41])),
    Op::Utf16Le(None),
    Op::Utf16Le(Some([0x41, 0x00])),
    Op::Switch(0),
    Op::Switch(1),
    Op::Switch(2),
    Op::Switch(7),
    Op::Remaining,
    Op::Move(0),
    Op::Switch(usize::MAX),
];

/// What one operation yields: a rendered value (or "Err") and the successor state.
#[derive(Clone, Debug, PartialEq)]
pub struct Step {
    pub value: Result<String, ()>,
    pub next: RState,
}

fn apply_real_bo<B: ByteOrder + gamedig::verif_hook::SwitchEndian>(s: &RState, op: Op) -> Step
where B::Output: ByteOrder {
    let mut b = Buffer::<B>::verif_at(&s.packet, s.cursor);
    macro_rules! rd {
        ($t:ty) => {{
            let r = b.read::<$t>();
            match r {
                Ok(v) => Ok(format!("{:?}", v)),
                Err(_) => Err(()),
            }
        }};
    }
    let mut next_packet = None;
    let value: Result<String, ()> = match op {
        Op::ReadU8 => rd!(u8),
        Op::ReadI8 => rd!(i8),
        Op::ReadU16 => rd!(u16),
        Op::ReadI16 => rd!(i16),
        Op::ReadU32 => rd!(u32),
        Op::ReadI32 => rd!(i32),
        Op::ReadU64 => rd!(u64),
        Op::ReadI64 => rd!(i64),
        Op::ReadF32 => b.read::<f32>().map(|v| format!("{:08x}", v.to_bits())).map_err(|_| ()),
        Op::ReadF64 => b.read::<f64>().map(|v| format!("{:016x}", v.to_bits())).map_err(|_| ()),
        Op::Move(o) => b.move_cursor(o).map(|_| String::new()).map_err(|_| ()),
        Op::Utf8(d) => b.read_string::<Utf8Decoder>(d.map(|x| [x])).map_err(|_| ()),
        Op::LenPrefixed(d) => b.read_string::<Utf8LengthPrefixedDecoder>(d.map(|x| [x])).map_err(|_| ()),
        Op::Utf16Be(d) => b.read_string::<Utf16Decoder<BigEndian>>(d).map_err(|_| ()),
        Op::Utf16Le(d) => b.read_string::<Utf16Decoder<LittleEndian>>(d).map_err(|_| ()),
        Op::Switch(n) => {
            match b.switch_endian_chunk(n) {
                Ok(mut chunk) => {
                    next_packet = Some((chunk.remaining_bytes().to_vec(), chunk.current_position()));
                    let bytes = chunk.remaining_bytes().to_vec();
                    // read through the RETURNED reader itself (its byte order is the library's choice, not the model's)
                    let probe = if bytes.len() >= 2 { chunk.read::<u16>().map(|v| format!(" u16={v}")).unwrap_or_else(|_| " u16=ERR".into()) } else { String::new() };
                    Ok(format!("chunk {:?}{probe}", bytes))
                }
                Err(_) => Err(()),
            }
        }
        Op::Remaining => {
            // remaining_length first: it must not underflow
            let n = b.remaining_length();
            Ok(format!("{n} {:?}", b.remaining_bytes()))
        }
    };
    let cursor = b.current_position();
    let next = match next_packet {
        // the search continues in the returned chunk (opposite byte order)
        Some((p, c)) if value.is_ok() => {
            RState {
                packet: p,
                cursor: c,
                big: !s.big,
            }
        }
        _ => {
            RState {
                packet: s.packet.clone(),
                cursor,
                big: s.big,
            }
        }
    };
    let _ = next.cursor;
    // for Switch the original buffer's cursor advance is observed separately in `orig_cursor`
    Step { value: value.map(|v| format!("{v}|orig_cursor={cursor}")), next }
}

pub fn apply_real(s: &RState, op: Op) -> Step {
    if s.big {
        apply_real_bo::<BigEndian>(s, op)
    } else {
        apply_real_bo::<LittleEndian>(s, op)
    }
}

/// The reference reader: a byte slice and an index. Returns the set of
/// acceptable steps (more than one where the statement leaves a choice).
pub fn reference(s: &RState, op: Op) -> Vec<Step> {
    let p = &s.packet;
    let c = s.cursor;
    let len = p.len();
    let same = |value: Result<String, ()>, cursor: usize| {
        Step {
            value: value.map(|v| format!("{v}|orig_cursor={cursor}")),
            next: RState {
                packet: p.clone(),
                cursor,
                big: s.big,
            },
        }
    };
    let fixed = |w: usize, render: &dyn Fn(&[u8]) -> String| -> Vec<Step> {
        if c + w <= len {
            vec![same(Ok(render(&p[c .. c + w])), c + w)]
        } else {
            vec![same(Err(()), c)]
        }
    };
    let num = |b: &[u8]| -> u64 {
        let mut v: u64 = 0;
        if s.big {
            for x in b {
                v = (v << 8) | *x as u64;
            }
        } else {
            for x in b.iter().rev() {
                v = (v << 8) | *x as u64;
            }
        }
        v
    };
    match op {
        Op::ReadU8 => fixed(1, &|b| format!("{}", b[0])),
        Op::ReadI8 => fixed(1, &|b| format!("{}", b[0] as i8)),
        Op::ReadU16 => fixed(2, &|b| format!("{}", num(b) as u16)),
        Op::ReadI16 => fixed(2, &|b| format!("{}", num(b) as u16 as i16)),
        Op::ReadU32 => fixed(4, &|b| format!("{}", num(b) as u32)),
        Op::ReadI32 => fixed(4, &|b| format!("{}", num(b) as u32 as i32)),
        Op::ReadU64 => fixed(8, &|b| format!("{}", num(b))),
        Op::ReadI64 => fixed(8, &|b| format!("{}", num(b) as i64)),
        Op::ReadF32 => fixed(4, &|b| format!("{:08x}", num(b) as u32)),
        Op::ReadF64 => fixed(8, &|b| format!("{:016x}", num(b))),
        Op::Move(o) => {
            let n = (c as i128) + (o as i128);
            if n >= 0 && n <= len as i128 {
                vec![same(Ok(String::new()), n as usize)]
            } else {
                vec![same(Err(()), c)]
            }
        }
        Op::Utf8(d) => {
            let d = d.unwrap_or(0);
            let rest = &p[c ..];
            let (body, consumed) = match rest.iter().position(|x| *x == d) {
                Some(pos) => (&rest[.. pos], pos + 1),
                None => (rest, rest.len()),
            };
            match std::str::from_utf8(body) {
                Ok(t) => vec![same(Ok(t.to_string()), c + consumed)],
                Err(_) => vec![same(Err(()), c)],
            }
        }
        Op::LenPrefixed(d) => {
            let d = d.unwrap_or(0);
            let rest = &p[c ..];
            let Some(&l) = rest.first() else { return vec![same(Err(()), c)] };
            let l = l as usize;
            if rest.len() > l {
                let field = &rest[1 .. 1 + l];
                let pos = field.iter().position(|x| *x == d).unwrap_or(l);
                match std::str::from_utf8(&field[.. pos]) {
                    Ok(t) => vec![same(Ok(t.to_string()), c + 1 + pos)],
                    Err(_) => vec![same(Err(()), c)],
                }
            } else {
                // the declared length runs past the packet: an error (position unchanged) or, leniently, the rest of the packet
                let mut v = vec![same(Err(()), c)];
                let field = &rest[1 ..];
                let pos = field.iter().position(|x| *x == d);
                match pos {
                    Some(pos) => {
                        if let Ok(t) = std::str::from_utf8(&field[.. pos]) {
                            v.push(same(Ok(t.to_string()), c + 1 + pos));
                        }
                    }
                    None => {
                        if let Ok(t) = std::str::from_utf8(field) {
                            v.push(same(Ok(t.to_string()), len));
                        }
                    }
                }
                v
            }
        }
        Op::Utf16Be(d) | Op::Utf16Le(d) => {
            let be = matches!(op, Op::Utf16Be(_));
            let d = d.unwrap_or([0, 0]);
            let rest = &p[c ..];
            let found = rest.chunks_exact(2).position(|ch| ch == d);
            let decode = |bytes: &[u8]| -> Result<String, ()> {
                let units: Vec<u16> = bytes
                    .chunks_exact(2)
                    .map(|ch| if be { u16::from_be_bytes([ch[0], ch[1]]) } else { u16::from_le_bytes([ch[0], ch[1]]) })
                    .collect();
                String::from_utf16(&units).map_err(|_| ())
            };
            match found {
                Some(pos) => {
                    match decode(&rest[.. pos * 2]) {
                        Ok(t) => vec![same(Ok(t), c + pos * 2 + 2)],
                        Err(()) => vec![same(Err(()), c)],
                    }
                }
                None => {
                    // unterminated: the rest of the packet is the string; an odd trailing byte cannot be part of
                    // it, so an error (position unchanged) is acceptable too
                    let even = rest.len() & !1;
                    let mut v = Vec::new();
                    match decode(&rest[.. even]) {
                        Ok(t) => v.push(same(Ok(t), len)),
                        Err(()) => v.push(same(Err(()), c)),
                    }
                    if rest.len() % 2 == 1 {
                        v.push(same(Err(()), c));
                    }
                    v
                }
            }
        }
        Op::Switch(n) => {
            if n <= len - c {
                let probe = if n >= 2 {
                    // the chunk reads in the opposite byte order of its parent
                    let two = [p[c], p[c + 1]];
                    format!(" u16={}", if s.big { u16::from_le_bytes(two) } else { u16::from_be_bytes(two) })
                } else {
                    String::new()
                };
                vec![Step {
                    value: Ok(format!("chunk {:?}{probe}|orig_cursor={}", &p[c .. c + n], c + n)),
                    next: RState {
                        packet: p[c .. c + n].to_vec(),
                        cursor: 0,
                        big: !s.big,
                    },
                }]
            } else {
                vec![same(Err(()), c)]
            }
        }
        Op::Remaining => vec![same(Ok(format!("{} {:?}", len - c, &p[c ..])), c)],
    }
}

pub struct ReaderModel {
    pub max_len: usize,
    pub bad: Mutex<Vec<(RState, Op, String, String)>>,
    pub transitions: std::sync::atomic::AtomicU64,
}

impl Model for ReaderModel {
    type State = RState;
    type Action = Op;

    fn init_states(&self) -> Vec<RState> {
        let mut v = Vec::new();
        let mut cur: Vec<Vec<u8>> = vec![vec![]];
        for _ in 0 ..= self.max_len {
            let mut next = Vec::new();
            for p in &cur {
                for big in [false, true] {
                    v.push(RState {
                        packet: p.clone(),
                        cursor: 0,
                        big,
                    });
                }
                if p.len() < self.max_len {
                    for s in SYMS {
                        let mut q = p.clone();
                        q.push(s);
                        next.push(q);
                    }
                }
            }
            cur = next;
        }
        v
    }

    fn actions(&self, _s: &RState, actions: &mut Vec<Op>) { actions.extend_from_slice(&OPS); }

    fn next_state(&self, s: &RState, op: Op) -> Option<RState> {
        self.transitions.fetch_add(1, std::sync::atomic::Ordering::Relaxed);
        let want = reference(s, op);
        let got = run_pure(|| apply_real(s, op));
        match got {
            Ok(step) => {
                let in_bounds = step.next.cursor <= step.next.packet.len();
                if !want.contains(&step) || !in_bounds {
                    self.bad.lock().unwrap().push((
                        s.clone(),
                        op,
                        format!("{:?} -> cursor {} of {}", step.value, step.next.cursor, step.next.packet.len()),
                        want.iter()
                            .map(|w| format!("{:?} -> cursor {}", w.value, w.next.cursor))
                            .collect::<Vec<_>>()
                            .join(" or "),
                    ));
                    // continue the search from the reference successor so that one defect does not hide others
                    return Some(want[0].next.clone());
                }
                Some(step.next)
            }
            Err((msg, loc)) => {
                self.bad.lock().unwrap().push((
                    s.clone(),
                    op,
                    format!("PANIC at {loc}: {msg}"),
                    want.iter()
                        .map(|w| format!("{:?} -> cursor {}", w.value, w.next.cursor))
                        .collect::<Vec<_>>()
                        .join(" or "),
                ));
                Some(want[0].next.clone())
            }
        }
    }

    fn properties(&self) -> Vec<Property<Self>> { vec![Property::always("search runs to completion", |_, _| true)] }
}

fn op_class(op: Op) -> String {
    match op {
        Op::Move(_) => "move_cursor".into(),
        Op::Utf8(_) => "read_string<Utf8>".into(),
        Op::LenPrefixed(_) => "read_string<Utf8LengthPrefixed>".into(),
        Op::Utf16Be(_) | Op::Utf16Le(_) => "read_string<Utf16>".into(),
        Op::Switch(_) => "switch_endian_chunk".into(),
        Op::Remaining => "remaining_length/bytes".into(),
        _ => "read<T>".into(),
    }
}

// ---------------------------------------------------------------------------

#[derive(Clone, Debug)]
enum What {
    Reader,
    /// replay of one reader transition (state, op index) — used by replay files
    VarintRoundTrip { lo: u64, hi: u64 },
    VarintClasses,
    Strings,
    Utils,
    /// Unreal 2 strings (length byte, optional UCS-2 flag and marker byte): all short packets over a boundary alphabet
    Unreal2Strings,
}

fn cases(tier: Tier) -> Vec<(String, What)> {
    let mut v = vec![(
        format!("reader model: packets <= {} bytes over 6 symbols, closed under all operations", if tier.is_thorough() { 6 } else { 4 }),
        What::Reader,
    )];
    if tier.is_thorough() {
        let shard = 1u64 << 28;
        for i in 0 .. 16u64 {
            v.push((format!("varint round trip, all integers {:#x}..{:#x}", i * shard, (i + 1) * shard), What::VarintRoundTrip { lo: i * shard, hi: (i + 1) * shard }));
        }
    } else {
        v.push(("varint round trip, stratified (<= 2 non-zero 7-bit groups, boundaries)".into(), What::VarintRoundTrip { lo: 0, hi: 0 }));
    }
    v.push(("varint decoding: all 1..6-byte encodings by continuation-bit class x 5th-byte nibble".into(), What::VarintClasses));
    v.push(("minecraft strings: as_string / get_string".into(), What::Strings));
    v.push(("u8_lower_upper (all 256), error_by_expected_size (grid)".into(), What::Utils));
    v.push((format!("unreal 2 string reads: all packets <= {} bytes over 10 symbols x every start position", if tier.is_thorough() { 6 } else { 5 }), What::Unreal2Strings));
    v
}

pub struct C17;

fn ref_varint(v: i32) -> Vec<u8> { crate::rsm::minecraft::varint(v) }

/// Reference decoder for one Unreal 2 string at the start of `data`, from the format description (node-gamedig
/// unreal2.js readUnrealString): a length byte; if its top bit is set the text is (length & 0x7f) UCS-2 units, optionally
/// preceded by a marker byte 01 that some games insert and that is not counted; otherwise the text is Latin-1 up to and
/// including the terminating NUL (or the rest of the packet if unterminated; a length byte of 0 is the whole string).
/// Colour escapes (1B and the three characters after it) and control characters 01..1A are removed from the text.
/// The counted UCS-2 units include the terminating NUL unit, which is not text.
/// Returns (text if it can be compared, bytes consumed), or None where the bytes cannot hold such a string.
/// (Text is not compared when it has bytes 80..9F, which the two common Latin-1 tables map differently.)
fn ref_unreal2_string(data: &[u8]) -> Option<(Option<String>, usize)> {
    let l = *data.first()?;
    let (raw, used, comparable): (Vec<char>, usize, bool) = if l >= 0x80 {
        let n = ((l & 0x7f) as usize) * 2;
        let start = if data.get(1) == Some(&1) { 2 } else { 1 };
        let body = data.get(start .. start + n)?;
        let units: Vec<u16> = body.chunks(2).map(|c| u16::from_le_bytes([c[0], c[1]])).collect();
        let text = String::from_utf16(&units).ok()?;
        // the counted units include the terminating NUL unit; a NUL inside the text is not expressible (delimiter)
        let text = text.trim_end_matches('\0');
        (text.chars().collect(), start + n, !text.contains('\0'))
    } else {
        let pos = data.iter().position(|b| *b == 0).unwrap_or(data.len());
        let body = &data[pos.min(1) .. pos];
        (body.iter().map(|b| *b as char).collect(), (pos + 1).min(data.len()), !body.iter().any(|b| (0x80 ..= 0x9f).contains(b)))
    };
    let mut out = String::new();
    let mut skip = 0;
    for ch in raw {
        if skip > 0 {
            skip -= 1;
            continue;
        }
        if ch == '\x1b' {
            skip = 3;
            continue;
        }
        if ch > '\x00' && ch <= '\x1a' {
            continue;
        }
        out.push(ch);
    }
    Some((comparable.then_some(out), used))
}

impl Prop for C17 {
    fn id(&self) -> &'static str { "C17" }
    fn n_cases(&self, tier: Tier) -> usize { cases(tier).len() }
    fn case_label(&self, tier: Tier, idx: usize) -> String { cases(tier)[idx].0.clone() }
    fn stall_secs(&self) -> u64 { 900 }
    fn rule(&self) -> String {
        // (Minecraft strings: texts of 0 .. 2 MiB bytes incl. 16383/16384, 32767/32768, 65535/65536 and a multi-byte text)
        "reader: explicit-state search (stateright BFS, run twice, state counts must agree): state = (packet, cursor, byte \
         order); initial states = every packet of length <= 4 (quick) / 6 (thorough) over {00,01,41,7F,80,FF} in both byte \
         orders; 33 actions = read of every fixed-width type, move_cursor(+-1, +-2, +-7, 0, isize::MIN/MAX), read_string with \
         each of the four decoders (default and custom delimiter), switch_endian_chunk(0,1,2,7,MAX), remaining_length/bytes; the \
         transition function re-enters the state in the REAL Buffer and calls the real method; every transition is compared \
         with a reference reader (byte slice + index). The reachable graph is closed, i.e. every operation sequence of any \
         depth is covered. codecs: VarInt round trip over all 2^32 integers (thorough) / stratified (quick); all 1..6-byte \
         encodings by class; string codec; u8_lower_upper all 256; error_by_expected_size grid"
            .into()
    }
    fn assumptions(&self) -> Vec<String> {
        vec![
            "where the statement leaves a choice (declared length past the end; odd trailing byte of an unterminated UTF-16 string) the reference accepts an error with the position unchanged or the rest of the packet".into(),
            "Buffer::verif_at (hook) constructs a reader at a given cursor".into(),
        ]
    }
    fn extra_coverage(&self, _tier: Tier) -> serde_json::Value { serde_json::json!({"engine": "stateright 0.31 spawn_bfs, 16 threads"}) }
    fn run_case(&self, tier: Tier, idx: usize, ctx: &mut Ctx) {
        let (label, what) = cases(tier)[idx].clone();
        match what {
            What::Reader => {
                let max_len = if tier.is_thorough() { 6 } else { 4 };
                if let Some(choices) = ctx.replay.clone() {
                    // replay: choices = [big, cursor, op index, packet bytes...]
                    let s = RState {
                        big: choices[0] != 0,
                        cursor: choices[1] as usize,
                        packet: choices[3 ..].iter().map(|b| *b as u8).collect(),
                    };
                    let op = OPS[choices[2] as usize];
                    let want = reference(&s, op);
                    let got = run_pure(|| apply_real(&s, op));
                    let ok = matches!(&got, Ok(st) if want.contains(st) && st.next.cursor <= st.next.packet.len());
                    ctx.counters.evaluations += 1;
                    if !ok {
                        ctx.violation(
                            format!("reader:{}", op_class(op)),
                            &choices,
                            format!("{op:?} on packet {:02x?} at cursor {} ({})", s.packet, s.cursor, if s.big { "BE" } else { "LE" }),
                            format!("{got:?}"),
                            format!("{want:?}"),
                            vec![],
                        );
                    }
                    return;
                }
                let mut counts = Vec::new();
                let mut last_bad = Vec::new();
                let mut transitions = 0;
                for _round in 0 .. 2 {
                    let model = ReaderModel {
                        max_len,
                        bad: Mutex::new(Vec::new()),
                        transitions: Default::default(),
                    };
                    let checker = model.checker().threads(16).spawn_bfs().join();
                    counts.push((checker.unique_state_count(), checker.state_count(), checker.max_depth()));
                    transitions = checker.model().transitions.load(std::sync::atomic::Ordering::Relaxed);
                    last_bad = std::mem::take(&mut *checker.model().bad.lock().unwrap());
                }
                if counts[0].0 != counts[1].0 {
                    ctx.violation("MACHINERY:nondeterministic-model", &[], format!("unique state counts differ between two runs: {counts:?}"), "", "", vec![]);
                }
                ctx.counters.states += counts[0].0 as u64;
                ctx.counters.transitions += transitions;
                ctx.counters.evaluations += transitions;
                ctx.counters.max_depth = counts[0].2 as u64;
                ctx.note("reader_unique_states", counts[0].0 as u64);
                for i in 0 .. counts[0].0.min(200_000) {
                    ctx.distinct.insert(i as u64);
                }
                ctx.sample(serde_json::json!({"case": label, "unique_states": counts[0].0, "generated_states": counts[0].1, "transitions": transitions, "max_depth": counts[0].2}));
                last_bad.sort_by_key(|(s, op, _, _)| (s.packet.len(), s.packet.clone(), s.cursor, format!("{op:?}")));
                for (s, op, got, want) in last_bad {
                    let opi = OPS.iter().position(|o| *o == op).unwrap() as u32;
                    let mut choices = vec![s.big as u32, s.cursor as u32, opi];
                    choices.extend(s.packet.iter().map(|b| *b as u32));
                    ctx.violation(
                        format!("reader:{}", op_class(op)),
                        &choices,
                        format!("{op:?} on packet {:02x?} at cursor {} ({})", s.packet, s.cursor, if s.big { "BE" } else { "LE" }),
                        got,
                        want,
                        vec![],
                    );
                }
            }
            What::VarintRoundTrip { lo, hi } => {
                let values: Box<dyn Iterator<Item = u32>> = if hi > lo {
                    Box::new((lo .. hi).map(|v| v as u32))
                } else {
                    // all values with <= 2 non-zero 7-bit groups, plus boundaries
                    let mut v: Vec<u32> = Vec::new();
                    for g1 in 0 .. 5u32 {
                        for a in 0 .. 128u32 {
                            v.push(a << (7 * g1));
                            for g2 in g1 + 1 .. 5 {
                                for b in [1u32, 0x3f, 0x40, 0x7f] {
                                    v.push((a << (7 * g1)) | (b << (7 * g2)));
                                }
                            }
                        }
                    }
                    for b in [0u32, 1, 0x7f, 0x80, 0x3fff, 0x4000, 0x1f_ffff, 0x20_0000, 0x0fff_ffff, 0x1000_0000, 0x7fff_ffff, 0x8000_0000, 0xffff_ffff] {
                        v.push(b);
                        v.push(b.wrapping_sub(1));
                        v.push(b.wrapping_add(1));
                    }
                    v.sort();
                    v.dedup();
                    Box::new(v.into_iter())
                };
                let mut n = 0u64;
                let mut bad = 0u64;
                for u in values {
                    let v = u as i32;
                    n += 1;
                    let enc = mcw::as_varint(v);
                    let mut ok = enc == ref_varint(v);
                    if ok {
                        let mut buf = Buffer::<LittleEndian>::new(&enc);
                        ok = matches!(mcw::get_varint(&mut buf), Ok(d) if d == v) && buf.remaining_length() == 0;
                    }
                    if !ok {
                        bad += 1;
                        ctx.violation(
                            "varint-round-trip",
                            &[u],
                            format!("as_varint({v}) = {enc:02x?}"),
                            format!("encoding {enc:02x?}, decodes to {:?}", mcw::get_varint(&mut Buffer::<LittleEndian>::new(&enc))),
                            format!("encoding {:02x?}, decoding back to {v}", ref_varint(v)),
                            vec![],
                        );
                    }
                }
                ctx.counters.evaluations += n;
                ctx.counters.states += n;
                ctx.counters.transitions += 2 * n;
                ctx.distinct_key(&(lo, hi, n));
                ctx.distinct_key(&(lo, hi, bad, "b"));
                ctx.sample(serde_json::json!({"case": label, "integers": n, "mismatches": bad}));
            }
            What::VarintClasses => {
                // every continuation-bit pattern of 1..6 bytes x payload bits all-0 / all-1 / mixed x 5th byte nibbles
                let mut n = 0u64;
                for len in 1 ..= 6usize {
                    for cont in 0 .. (1u32 << len) {
                        for fill in [0x00u8, 0x7f, 0x2a] {
                            for fifth_hi in 0 .. 8u8 {
                                let bytes: Vec<u8> = (0 .. len)
                                    .map(|i| {
                                        let mut b = fill;
                                        if i == 4 {
                                            b = (b & 0x0f) | (fifth_hi << 4);
                                        }
                                        b | if cont & (1 << i) != 0 { 0x80 } else { 0 }
                                    })
                                    .collect();
                                n += 1;
                                // reference decoder
                                let mut want: Result<(i32, usize), ()> = Err(());
                                let mut acc: u32 = 0;
                                for (i, b) in bytes.iter().enumerate().take(5) {
                                    acc |= ((b & 0x7f) as u32) << (7 * i);
                                    if i == 4 && (b & 0xf0) != 0 {
                                        break;
                                    }
                                    if b & 0x80 == 0 {
                                        want = Ok((acc as i32, i + 1));
                                        break;
                                    }
                                }
                                let got = run_pure(|| {
                                    let mut buf = Buffer::<LittleEndian>::new(&bytes);
                                    let r = mcw::get_varint(&mut buf);
                                    (r.map_err(|_| ()), buf.current_position())
                                });
                                let ok = match (&got, &want) {
                                    (Ok((Ok(v), pos)), Ok((w, used))) => v == w && pos == used,
                                    (Ok((Err(()), _)), Err(())) => true,
                                    _ => false,
                                };
                                ctx.distinct_key(&(len, cont, fifth_hi & 1, fill));
                                if !ok {
                                    ctx.violation(
                                        "varint-decoding",
                                        &bytes.iter().map(|b| *b as u32).collect::<Vec<_>>(),
                                        format!("get_varint on {bytes:02x?}"),
                                        format!("{got:?}"),
                                        format!("{want:?} (over-long / 5th byte with high bits must be rejected)"),
                                        vec![],
                                    );
                                }
                            }
                        }
                    }
                }
                ctx.counters.evaluations += n;
                ctx.counters.states += n;
                ctx.counters.transitions += n;
                ctx.sample(serde_json::json!({"case": label, "encodings": n}));
            }
            What::Strings => {
                let mut n = 0u64;
                let texts = ["".to_string(), "a".to_string(), "Zürich 東京 𝄞".to_string(), crate::rsm::long_string(127), crate::rsm::long_string(128), crate::rsm::long_string(16_383), crate::rsm::long_string(16_384), crate::rsm::long_string(20_000), crate::rsm::long_string(32_767), crate::rsm::long_string(32_768), crate::rsm::long_string(65_535), crate::rsm::long_string(65_536), "é".repeat(20_000), crate::rsm::long_string(2_097_152)];
                for t in &texts {
                    n += 1;
                    let want = crate::rsm::minecraft::varint_string(t);
                    let enc = run_pure(|| mcw::as_string(t));
                    let ok = matches!(&enc, Ok(Ok(e)) if *e == want);
                    if !ok {
                        ctx.violation("string-encoding", &[], format!("as_string of a {}-byte text", t.len()), clip(&format!("{enc:?}"), 200), "varint length + UTF-8 bytes", vec![]);
                        continue;
                    }
                    // decoding with declared length exact / -1 / +1 / negative / i32::MAX
                    for delta in [0i64, -1, 1, i64::MIN, i64::MAX] {
                        n += 1;
                        let declared: i32 = match delta {
                            i64::MIN => -1,
                            i64::MAX => i32::MAX,
                            d => (t.len() as i64 + d) as i32,
                        };
                        if declared < 0 && delta == -1 {
                            continue;
                        }
                        let mut bytes = ref_varint(declared);
                        bytes.extend_from_slice(t.as_bytes());
                        let want: Result<String, ()> = if declared >= 0 && (declared as usize) <= t.len() {
                            String::from_utf8(t.as_bytes()[.. declared as usize].to_vec()).map_err(|_| ())
                        } else {
                            Err(())
                        };
                        let key = vec![t.len() as u32, declared as u32];
                        if matches!(&ctx.replay, Some(r) if r.len() == 2 && *r != key) {
                            continue;
                        }
                        if ctx.skip.contains(&(ctx.case, key.clone())) {
                            continue; // known to kill the process (reported by the driver)
                        }
                        crate::crumb::mark(ctx.case, &key);
                        crate::alloc::arm();
                        let got = run_pure(|| mcw::get_string(&mut Buffer::<LittleEndian>::new(&bytes)).map_err(|_| ()));
                        let st = crate::alloc::disarm();
                        ctx.distinct_key(&(t.len(), declared));
                        let ok = matches!(&got, Ok(g) if *g == want) && st.largest <= (1 << 24);
                        if !ok {
                            ctx.violation(
                                "string-decoding",
                                &[t.len() as u32, declared as u32],
                                format!("get_string with declared length {declared} over {} bytes of text", t.len()),
                                format!("{}; largest allocation {} bytes", clip(&format!("{got:?}"), 200), st.largest),
                                clip(&format!("{want:?}"), 200),
                                vec![],
                            );
                        }
                    }
                }
                ctx.counters.evaluations += n;
                ctx.counters.states += n;
                ctx.counters.transitions += n;
                ctx.sample(serde_json::json!({"case": label, "checks": n}));
            }
            What::Unreal2Strings => {
                // 00 terminator / bare empty, 01 marker and control code, 02 03 small lengths, 41 text, 1B colour escape,
                // 80 81 82 UCS-2 lengths 0 1 2, D8 high-surrogate lead (as the high byte of a UCS-2 unit), FF
                const U2SYMS: [u8; 10] = [0x00, 0x01, 0x02, 0x03, 0x41, 0x1B, 0x80, 0x81, 0x82, 0xD8];
                let max = if tier.is_thorough() { 6 } else { 5 };
                let mut n = 0u64;
                for len in 0 ..= max {
                    let total = U2SYMS.len().pow(len as u32);
                    for code in 0 .. total {
                        let mut packet = Vec::with_capacity(len);
                        let mut c = code;
                        for _ in 0 .. len {
                            packet.push(U2SYMS[c % U2SYMS.len()]);
                            c /= U2SYMS.len();
                        }
                        for cursor in 0 ..= len {
                            n += 1;
                            if n % 50_000 == 0 {
                                crate::crumb::mark(ctx.case, &[(n / 50_000) as u32]);
                            }
                            let want = ref_unreal2_string(&packet[cursor ..]);
                            let got = run_pure(|| {
                                let mut b = Buffer::<LittleEndian>::verif_at(&packet, cursor);
                                let r = b.read_string::<Unreal2StringDecoder>(None);
                                (r.map_err(|_| ()), b.current_position(), b.remaining_length())
                            });
                            let bad: Option<String> = match (&got, &want) {
                                (Err((msg, loc)), _) => Some(format!("PANIC at {loc}: {msg}")),
                                (Ok((Ok(text), pos, rem)), Some((wtext, used))) => {
                                    if *pos != cursor + used || *pos + *rem != len {
                                        Some(format!("Ok({text:?}) leaving the reader at {pos} (remaining {rem}); the string and its delimiter end at {}", cursor + used))
                                    } else if wtext.as_ref().is_some_and(|w| w != text) {
                                        Some(format!("Ok({text:?}) at {pos}; expected text {:?}", wtext.as_ref().unwrap()))
                                    } else {
                                        None
                                    }
                                }
                                (Ok((Ok(text), pos, _)), None) => Some(format!("Ok({text:?}) at {pos} for a string the format cannot hold in these bytes")),
                                (Ok((Err(()), pos, rem)), w) => {
                                    if *pos > len || *pos + *rem != len {
                                        Some(format!("Err leaving the reader at {pos} (remaining {rem}) of {len}"))
                                    } else if w.is_some() {
                                        Some(format!("Err for a well-formed string ({w:?})"))
                                    } else {
                                        None
                                    }
                                }
                            };
                            ctx.distinct_key(&(len, packet.get(cursor).copied(), want.as_ref().map(|w| w.1), bad.is_some()));
                            if let Some(observed) = bad {
                                ctx.violation("reader:read_string<Unreal2>", &[len as u32, code as u32, cursor as u32], format!("read_string::<Unreal2StringDecoder> on {packet:02x?} at {cursor}"), observed, format!("{want:?} (text, bytes consumed)"), vec![]);
                            }
                        }
                    }
                }
                ctx.counters.evaluations += n;
                ctx.counters.states += n;
                ctx.counters.transitions += n;
                ctx.sample(serde_json::json!({"case": label, "checks": n}));
            }
            What::Utils => {
                let mut n = 0u64;
                for b in 0 ..= 255u8 {
                    n += 1;
                    ctx.distinct_key(&b);
                    let (lo, hi) = u8_lower_upper(b);
                    if lo != (b & 0x0f) || hi != (b >> 4) {
                        ctx.violation("u8_lower_upper", &[b as u32], format!("u8_lower_upper({b:#04x})"), format!("({lo}, {hi})"), format!("({}, {})", b & 15, b >> 4), vec![]);
                    }
                }
                let grid = [0usize, 1, 2, 68, 69, 70, usize::MAX];
                for e in grid {
                    for s in grid {
                        n += 1;
                        ctx.distinct_key(&(e, s));
                        let r = error_by_expected_size(e, s);
                        let ok = match s.cmp(&e) {
                            std::cmp::Ordering::Equal => r.is_ok(),
                            std::cmp::Ordering::Greater => matches!(&r, Err(x) if x.kind == gamedig::GDErrorKind::PacketOverflow),
                            std::cmp::Ordering::Less => matches!(&r, Err(x) if x.kind == gamedig::GDErrorKind::PacketUnderflow),
                        };
                        if !ok {
                            ctx.violation("error_by_expected_size", &[], format!("error_by_expected_size({e}, {s})"), format!("{:?}", r.map_err(|x| x.kind)), "Ok iff equal, Overflow if larger, Underflow if smaller", vec![]);
                        }
                    }
                }
                ctx.counters.evaluations += n;
                ctx.counters.states += n;
                ctx.counters.transitions += n;
                ctx.sample(serde_json::json!({"case": label, "checks": n}));
            }
        }
    }
}
