//! C13 — no reply can make a query reserve unbounded memory.

use super::common::*;
use crate::explore::{explore, ExploreCfg};
use crate::hostile::{Hostile, MenuKind};
use crate::prop::Prop;
use crate::report::{Ctx, Tier};
use crate::run::{run_pure, run_query};
use crate::targets::*;
use crate::vnet::{render_log, Chooser, WireEvent};
use std::io::{Read, Write};
use std::net::{IpAddr, Ipv4Addr, TcpListener};
use std::sync::OnceLock;

pub const LIVE_LIMIT: usize = 64 << 20;
pub const SINGLE_LIMIT: usize = 16 << 20;

#[derive(Clone)]
enum What {
    Target { target: Target, retries: usize, second: bool },
    EcoHttp,
    /// large WELL-FORMED replies (thousands of tiny entries): what the query holds must stay in proportion to what it received
    LargeWellFormed,
}

#[derive(Clone)]
struct Case {
    label: String,
    what: What,
}

fn build(tier: Tier) -> Vec<Case> {
    let mut v = Vec::new();
    // every protocol-level entry point, then the definition-driven entry point once per protocol family: its result is
    // converted to the generic view (as_json) inside the measured region, as the documentation's examples and the CLI do
    let mut seen_families = std::collections::BTreeSet::new();
    let generic: Vec<Target> = dispatch_targets().into_iter().filter(|t| seen_families.insert(super::c09::family_tag(t.family))).collect();
    for t in protocol_targets().into_iter().chain(generic) {
        if let Some((p, r)) = t.toggles {
            // sections requested and failures surfaced or not: Try/Try and Enforce/Enforce
            if p != r || p == gamedig::protocols::types::GatherToggle::Skip {
                continue;
            }
        }
        for retries in [0usize, 1] {
            if retries == 1 && !t.honours_timeout {
                continue;
            }
            v.push(Case { label: format!("{} retries={retries} extremes at every offset, one at a time", t.name), what: What::Target { target: t.clone(), retries, second: false } });
        }
        if tier.is_thorough() {
            v.push(Case { label: format!("{} retries=0 extremes, two at a time", t.name), what: What::Target { target: t.clone(), retries: 0, second: true } });
        }
    }
    v.push(Case { label: "eco: HTTP Content-Length extremes over a loopback responder".into(), what: What::EcoHttp });
    v.push(Case { label: "large well-formed replies: Valve rules / players in dozens of fragments, Unreal 2 lists, GameSpy 1 variables".into(), what: What::LargeWellFormed });
    v
}

static QUICK: OnceLock<Vec<Case>> = OnceLock::new();
static THOROUGH: OnceLock<Vec<Case>> = OnceLock::new();
fn cases(tier: Tier) -> &'static Vec<Case> {
    match tier {
        Tier::Quick => QUICK.get_or_init(|| build(Tier::Quick)),
        Tier::Thorough => THOROUGH.get_or_init(|| build(Tier::Thorough)),
    }
}

pub struct C13;

impl Prop for C13 {
    fn id(&self) -> &'static str { "C13" }
    fn n_cases(&self, tier: Tier) -> usize { cases(tier).len() }
    fn case_label(&self, tier: Tier, idx: usize) -> String { cases(tier)[idx].label.clone() }
    fn stall_secs(&self) -> u64 { 60 }
    fn rule(&self) -> String {
        "case = (entry point - every protocol-level one, and the definition-driven one with the conversion to the generic view once per protocol family -, retries, one or two deviations). The reference server is in its seed state; at every receive the \
         menu is the well-formed datagram, every proper prefix, at EVERY offset each of 9 single-byte extremes and each of 8 \
         two/four-byte extremes (FFFF, 7FFF, FF7F, FFFFFFFF, 7FFFFFFF, FFFFFF7F, 80000000, 00000080: u16/u32 maxima and \
         half-maxima in both byte orders), every decimal number replaced by 7 boundary texts (incl. 4294967296 and \
         99999999999999999999), the format-specific structural extremes (split totals, valid bzip2 with absurd declared sizes, \
         5-byte varints, counts above the payload, key_<huge> suffixes), three 65507-byte datagrams and silence; thorough: two at \
         a time (second from the boundary subset). Oracle: a counting global allocator armed around the call: peak live <= 64 \
         MiB, largest single request <= 16 MiB, (a request above 1 GiB is refused and the process death is attributed to the \
         execution), and sends <= (retries+1) x (datagrams delivered + 8). Eco: Content-Length extremes over loopback HTTP, and well-formed bodies (accurate Content-Length) in which every unsigned field at once, and each one alone, is 50000000. Large well-formed replies (2000 / 8000 / 20000 tiny Valve rules with 255 players in dozens of fragments, Unreal 2 lists in 6 datagrams, 3000 GameSpy 1 variables in 60 parts) under the same allowance"
            .into()
    }
    fn assumptions(&self) -> Vec<String> {
        vec!["allocations made by the harness inside the virtual network are not charged; the delivered datagram buffer is".into()]
    }
    fn run_case(&self, tier: Tier, idx: usize, ctx: &mut Ctx) {
        let case = cases(tier)[idx].clone();
        match case.what.clone() {
            What::Target { target, retries, second } => {
                let ts = super::c01::timeouts(retries);
                explore(
                    ctx,
                    &ExploreCfg::bound(if second { 2 } else { 1 }),
                    |prefix| {
                        let policy = Hostile {
                            family: target.family,
                            wide: true,
                            first: if second { MenuKind::Second } else { MenuKind::Full },
                            after: if second { Some(MenuKind::Second) } else { None },
                            tail_len: 1,
                            refuse_tcp: false,
                            extremes_only: false,
                        };
                        let call = target.call.clone();
                        (run_query((target.server)(), Box::new(policy), Chooser::new(prefix), || call(ts)), ())
                    },
                    |ctx, x, _| {
                        let tag = target.name.split(' ').next().unwrap_or("").to_string();
                        let sends = x.log.iter().filter(|e| matches!(e, WireEvent::Send { .. })).count();
                        let delivered = x.log.iter().filter(|e| matches!(e, WireEvent::Recv { data: Some(_), .. })).count();
                        if x.alloc.largest > SINGLE_LIMIT || x.alloc.peak_live > LIVE_LIMIT {
                            ctx.violation(
                                format!("memory-out-of-proportion:{tag}"),
                                &x.choices(),
                                format!("largest single request {} bytes, peak live {} bytes for {} bytes received", x.alloc.largest, x.alloc.peak_live, x.log.iter().map(|e| if let WireEvent::Recv { data: Some(d), .. } = e { d.len() } else { 0 }).sum::<usize>()),
                                format!("largest={} peak_live={}", x.alloc.largest, x.alloc.peak_live),
                                format!("largest <= {SINGLE_LIMIT}, peak live <= {LIVE_LIMIT}"),
                                render_log(&x.log),
                            );
                        } else if sends > (retries + 1) * (delivered + 8) {
                            ctx.violation(
                                format!("too-many-requests:{tag}"),
                                &x.choices(),
                                format!("{sends} requests for {delivered} datagrams delivered, retries={retries}"),
                                sends.to_string(),
                                format!("<= {}", (retries + 1) * (delivered + 8)),
                                render_log(&x.log),
                            );
                        } else if !x.outcome.is_total() && matches!(x.outcome, crate::run::Outcome::Hang(_)) {
                            ctx.violation(format!("too-many-requests:{tag}"), &x.choices(), "query does not stop", x.outcome.class(), "bounded number of requests", render_log(&x.log));
                        } else if x.choices().iter().all(|c| *c == 0) {
                            ctx.sample(serde_json::json!({"case": case.label, "default_run": {"peak_live": x.alloc.peak_live, "largest": x.alloc.largest, "requests": x.alloc.requests, "sends": sends}}));
                        }
                    },
                );
            }
            What::LargeWellFormed => {
                use crate::rsm::valve as rv;
                use gamedig::protocols::types::GatherToggle::Enforce;
                let mut runs: Vec<(String, crate::run::Exec<serde_json::Value>)> = Vec::new();
                for n_rules in [2_000usize, 8_000, 20_000] {
                    let e = super::c02::EngineCfg::App440;
                    let mut st = valve_seed(e);
                    st.rules = (0 .. n_rules).map(|i| (format!("r{i}"), String::new())).collect();
                    st.players = rv::gen_players(&mut Chooser::new(&[]), e.layout(), &[255]);
                    st.info.players = 255;
                    let mut t = valve_seed_transport(e, &st);
                    let (pl, rl) = (rv::players_body(&st.players).len(), rv::rules_body(&st.rules).len());
                    t.players = rv::Framing::Source { cuts: crate::rsm::even_cuts(pl, pl.div_ceil(1200)), compressed: false, size_field: true, exact_size: true, id: 0x41 };
                    t.rules = rv::Framing::Source { cuts: crate::rsm::even_cuts(rl, rl.div_ceil(1200).min(255)), compressed: false, size_field: true, exact_size: true, id: 0x42 };
                    let gs = gamedig::protocols::valve::GatheringSettings { players: Enforce, rules: Enforce, check_app_id: false };
                    let x = run_query(Box::new(rv::ValveServer::new(st, t)), Box::new(crate::vnet::Faithful), Chooser::new(&[]), || {
                        gamedig::protocols::valve::query(&addr(), e.engine(), Some(gs), None).map(|r| to_json(&r))
                    });
                    runs.push((format!("valve::query, {n_rules} tiny rules and 255 players"), x));
                }
                {
                    let mut st = crate::rsm::unreal2::gen_u2(&mut Chooser::new(&[]), &[300], &[64]);
                    st.num_players = 64;
                    let gs = gamedig::protocols::unreal2::GatheringSettings { players: Enforce, mutators_and_rules: Enforce };
                    let x = run_query(Box::new(crate::rsm::unreal2::U2Server { state: st, rule_packets: 6, player_packets: 6 }), Box::new(crate::vnet::Faithful), Chooser::new(&[]), || {
                        gamedig::protocols::unreal2::query(&addr(), &gs, None).map(|r| to_json(&r))
                    });
                    runs.push(("unreal2::query, 300 rules and 64 players in 6 datagrams each".into(), x));
                }
                {
                    let mut st = gs1_seed();
                    for i in 0 .. 3_000 {
                        st.extra.push((format!("x{i}"), "1".to_string()));
                    }
                    let n = st.pairs().len();
                    let cuts: Vec<usize> = (1 .. 60).map(|i| n * i / 60).collect();
                    let x = run_query(Box::new(crate::rsm::gamespy::Gs1Server { state: st, cut_at: cuts }), Box::new(crate::vnet::Faithful), Chooser::new(&[]), || {
                        gamedig::protocols::gamespy::one::query(&addr(), None).map(|r| to_json(&r))
                    });
                    runs.push(("gamespy::one::query, 3000 extra variables in 60 parts".into(), x));
                }
                for (name, x) in runs {
                    ctx.account(&x, 0);
                    let received: usize = x.log.iter().map(|e| if let WireEvent::Recv { data: Some(d), .. } = e { d.len() } else { 0 }).sum();
                    ctx.distinct_key(&(name.clone(), x.outcome.class()));
                    if x.outcome.ok().is_none() {
                        ctx.violation("large-well-formed-reply-not-decoded", &[], name.clone(), x.outcome.describe_json(), "Ok(..)", render_log(&x.log).into_iter().take(20).collect());
                    } else if x.alloc.largest > SINGLE_LIMIT || x.alloc.peak_live > LIVE_LIMIT {
                        ctx.violation(
                            format!("memory-out-of-proportion:large-well-formed-reply:{}", name.split(',').next().unwrap_or("")),
                            &[],
                            format!("{name}: largest single request {} bytes, peak live {} bytes for {received} bytes received", x.alloc.largest, x.alloc.peak_live),
                            format!("largest={} peak_live={}", x.alloc.largest, x.alloc.peak_live),
                            format!("largest <= {SINGLE_LIMIT}, peak live <= {LIVE_LIMIT}"),
                            vec![],
                        );
                    } else {
                        ctx.sample(serde_json::json!({"case": name, "received_bytes": received, "peak_live": x.alloc.peak_live, "largest": x.alloc.largest}));
                    }
                }
            }
            What::EcoHttp => {
                let body = super::eco::gen_eco(&mut Chooser::new(&[])).json().into_bytes();
                let variants: Vec<(String, Vec<u8>)> = [
                    "0",
                    "1",
                    "18446744073709551615",
                    "99999999999999999999999",
                    "4294967296",
                    "1073741825",
                    "-1",
                    "x",
                ]
                .iter()
                .map(|cl| {
                    let mut out = format!("HTTP/1.1 200 OK\r\nContent-Type: application/json\r\nContent-Length: {cl}\r\nConnection: close\r\n\r\n").into_bytes();
                    out.extend_from_slice(&body);
                    (format!("Content-Length: {cl}"), out)
                })
                .collect();
                // well-formed answers (accurate Content-Length) whose declared counts are far above what the body holds:
                // every unsigned field at once, then each one alone
                let mut variants = variants;
                for which in std::iter::once(None).chain((0 .. 10).map(Some)) {
                    let mut st = super::eco::gen_eco(&mut Chooser::new(&[]));
                    for i in 0 .. 10 {
                        if which.is_none() || which == Some(i) {
                            st.u[i] = 50_000_000;
                        }
                    }
                    let body = st.json().into_bytes();
                    let mut out = format!("HTTP/1.1 200 OK\r\nContent-Type: application/json\r\nContent-Length: {}\r\nConnection: close\r\n\r\n", body.len()).into_bytes();
                    out.extend_from_slice(&body);
                    variants.push((format!("well-formed, declared counts 50000000 in {}", which.map_or("every unsigned field".to_string(), |i| format!("unsigned field {i}"))), out));
                }
                for (name, raw) in variants {
                    let ip = IpAddr::V4(Ipv4Addr::LOCALHOST);
                    let listener = TcpListener::bind((ip, 0)).expect("bind");
                    let port = listener.local_addr().unwrap().port();
                    let raw2 = raw.clone();
                    let h = std::thread::spawn(move || {
                        if let Ok((mut s, _)) = listener.accept() {
                            let mut buf = [0u8; 2048];
                            let _ = s.read(&mut buf);
                            let _ = s.write_all(&raw2);
                        }
                    });
                    let ts = super::c01::timeouts(0).map(|_| gamedig::TimeoutSettings::new(Some(std::time::Duration::from_millis(800)), Some(std::time::Duration::from_millis(800)), Some(std::time::Duration::from_millis(800)), 0).unwrap());
                    crate::alloc::arm();
                    let r = run_pure(|| gamedig::games::eco::query_with_timeout(&ip, Some(port), &ts));
                    let st = crate::alloc::disarm();
                    let _ = h.join();
                    ctx.counters.evaluations += 1;
                    ctx.counters.states += 1;
                    ctx.counters.transitions += 2;
                    ctx.distinct_key(&(name.clone(), r.as_ref().map(|x| x.is_ok()).unwrap_or(false)));
                    let bad = match &r {
                        Err((msg, loc)) => Some(format!("PANIC at {loc}: {msg}")),
                        Ok(_) if st.largest > SINGLE_LIMIT || st.peak_live > LIVE_LIMIT => Some(format!("largest={} peak_live={}", st.largest, st.peak_live)),
                        Ok(_) => None,
                    };
                    match bad {
                        Some(b) => ctx.violation("memory-out-of-proportion:eco-http", &[], name.clone(), b, format!("largest <= {SINGLE_LIMIT}, peak live <= {LIVE_LIMIT}, no panic"), vec![]),
                        None => ctx.sample(serde_json::json!({"case": case.label, "header": name, "largest": st.largest, "peak_live": st.peak_live, "ok": r.map(|x| x.is_ok()).unwrap_or(false)})),
                    }
                }
            }
        }
    }
}
