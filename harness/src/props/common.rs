//! Shared helpers for the property checks.

use crate::report::Ctx;
use crate::run::{Exec, Outcome};
use crate::vnet::render_log;
use serde_json::Value;
use std::net::{IpAddr, Ipv4Addr, SocketAddr};

pub const IP4: IpAddr = IpAddr::V4(Ipv4Addr::new(192, 0, 2, 77));
pub const PORT: u16 = 40_123;

pub fn addr() -> SocketAddr { SocketAddr::new(IP4, PORT) }

pub fn to_json<T: serde::Serialize>(t: &T) -> Value { canon(serde_json::to_value(t).unwrap_or(Value::Null)) }

/// Sort object keys recursively (serde_json keeps insertion order in this
/// dependency graph, and HashMap iteration order is random).
pub fn canon(v: Value) -> Value {
    match v {
        Value::Object(m) => {
            let mut entries: Vec<(String, Value)> = m.into_iter().map(|(k, v)| (k, canon(v))).collect();
            entries.sort_by(|a, b| a.0.cmp(&b.0));
            Value::Object(entries.into_iter().collect())
        }
        Value::Array(a) => Value::Array(a.into_iter().map(canon).collect()),
        other => other,
    }
}

/// Path of the first difference between two JSON values (None if equal).
pub fn first_diff(a: &Value, b: &Value) -> Option<String> {
    // keys of data maps (rule names, variables) are abstracted so that classes stay coarse
    const MAPS: [&str; 6] = ["unused_entries", "rules", "server_achievements_dict", "mutators", "<vars>", "raw"];
    fn keyclass(k: &str, parent: &str) -> String {
        if MAPS.contains(&parent) || k.len() > 28 || !k.chars().all(|c| c.is_ascii_alphanumeric() || c == '_') || k.chars().next().map_or(true, |c| c.is_ascii_digit() || c.is_ascii_uppercase() && k.len() > 12) {
            "<key>".to_string()
        } else {
            k.to_string()
        }
    }
    fn go(a: &Value, b: &Value, path: &mut String, parent: &str) -> bool {
        match (a, b) {
            (Value::Object(x), Value::Object(y)) => {
                for (k, v) in x {
                    match y.get(k) {
                        None => {
                            path.push_str(&format!(".{}<missing>", keyclass(k, parent)));
                            return true;
                        }
                        Some(w) => {
                            let n = path.len();
                            path.push_str(&format!(".{}", keyclass(k, parent)));
                            if go(v, w, path, k) {
                                return true;
                            }
                            path.truncate(n);
                        }
                    }
                }
                for k in y.keys() {
                    if !x.contains_key(k) {
                        path.push_str(&format!(".{}<unexpected>", keyclass(k, parent)));
                        return true;
                    }
                }
                false
            }
            (Value::Array(x), Value::Array(y)) => {
                if x.len() != y.len() {
                    path.push_str("[len]");
                    return true;
                }
                // the same elements in another order (sets serialise in arbitrary order): not the difference we are
                // looking for — typed equality has already decided whether order matters
                let mut xs: Vec<String> = x.iter().map(|v| v.to_string()).collect();
                let mut ys: Vec<String> = y.iter().map(|v| v.to_string()).collect();
                xs.sort();
                ys.sort();
                if xs == ys {
                    return false;
                }
                for (v, w) in x.iter().zip(y.iter()) {
                    let n = path.len();
                    path.push_str("[]");
                    if go(v, w, path, parent) {
                        return true;
                    }
                    path.truncate(n);
                }
                false
            }
            _ => a != b,
        }
    }
    let mut p = String::new();
    // a bare map of variables at the root has only data keys
    let root_parent = match (a, b) {
        (Value::Object(x), _) if x.values().all(|v| v.is_string()) && !x.is_empty() => "<vars>",
        _ => "",
    };
    if go(a, b, &mut p, root_parent) {
        Some(if p.is_empty() { "<root>".into() } else { p })
    } else if a != b {
        Some("<order of a list>".into())
    } else {
        None
    }
}

pub fn clip(s: &str, n: usize) -> String {
    if s.len() <= n {
        s.to_string()
    } else {
        let cut = s.char_indices().nth(n).map_or(s.len(), |x| x.0);
        format!("{}…", &s[.. cut])
    }
}

/// Compare a decoded response with the reference model's expectation.
/// `tag` names the stratum (layout / framing) for the violation class.
pub fn check_equal<T: serde::Serialize + std::fmt::Debug + PartialEq>(
    ctx: &mut Ctx,
    x: &Exec<T>,
    expected: &T,
    tag: &str,
) -> bool {
    match &x.outcome {
        Outcome::Ok(got) => {
            if got == expected {
                return true;
            }
            let path = first_diff(&to_json(expected), &to_json(got)).unwrap_or_else(|| "<non-json difference>".into());
            ctx.violation(
                format!("decode-mismatch:{tag}:{path}"),
                &x.choices(),
                format!("decoded response differs from the server state at {path}"),
                clip(&to_json(got).to_string(), 1500),
                clip(&to_json(expected).to_string(), 1500),
                render_log(&x.log),
            );
            false
        }
        other => {
            ctx.violation(
                format!("decode-failure:{tag}:{}", other.class()),
                &x.choices(),
                "a well-formed reply was not decoded",
                match other {
                    Outcome::Ok(_) => unreachable!(),
                    Outcome::Err(k, s) => format!("Err({k:?}: {s})"),
                    Outcome::Panic { msg, loc } => format!("PANIC at {loc}: {msg}"),
                    Outcome::Hang(s) => format!("DID NOT RETURN: {s}"),
                    Outcome::Diverged(s) => format!("MACHINERY: {s}"),
                },
                clip(&to_json(expected).to_string(), 1500),
                render_log(&x.log),
            );
            false
        }
    }
}

/// Totality oracle (C01): anything but Ok/Err is a violation.
pub fn check_total<T: std::fmt::Debug>(ctx: &mut Ctx, x: &Exec<T>, tag: &str) -> bool {
    match &x.outcome {
        Outcome::Ok(_) | Outcome::Err(..) => true,
        Outcome::Panic { msg, loc } => {
            let file = loc.rsplit_once(':').map_or(loc.as_str(), |p| p.0);
            ctx.violation(
                {
                    let _ = tag;
                    format!("panic:{file}:{}", panic_kind(msg))
                },
                &x.choices(),
                format!("query panicked at {loc}"),
                format!("panic: {msg}"),
                "Ok(..) or Err(..)",
                render_log(&x.log),
            );
            false
        }
        Outcome::Hang(why) => {
            ctx.violation(
                format!("hang:{tag}"),
                &x.choices(),
                "query does not return",
                why.clone(),
                "Ok(..) or Err(..) once the server is silent",
                render_log(&x.log),
            );
            false
        }
        Outcome::Diverged(_) => true,
    }
}

/// With a read timeout configured, no receive may happen on a socket that carries none (it would block for ever once the
/// server is silent). Returns false (and records a violation) if the wire log shows such a receive.
pub fn check_no_blocked_receive<T: std::fmt::Debug>(ctx: &mut Ctx, x: &Exec<T>, tag: &str) -> bool {
    if x.log.iter().any(|e| matches!(e, crate::vnet::WireEvent::BlocksForever { .. })) {
        ctx.violation(
            format!("hang:receive-on-a-socket-without-read-timeout:{tag}"),
            &x.choices(),
            "a read timeout was configured, yet a receive ran on a socket that carries no read timeout: with the server silent the query does not return",
            "receive without read timeout",
            "every receive is bounded by the configured read timeout",
            render_log(&x.log),
        );
        return false;
    }
    true
}

/// Normalise a panic message to its kind (drop the concrete numbers).
pub fn panic_kind(msg: &str) -> String {
    // the kind is the text before any quoted data
    let msg = msg.split([';', '`', '"', '\'']).next().unwrap_or(msg).trim_end();
    let mut out = String::new();
    let mut last_digit = false;
    for ch in msg.chars() {
        if ch.is_ascii_digit() {
            if !last_digit {
                out.push('N');
            }
            last_digit = true;
        } else {
            last_digit = false;
            out.push(ch);
        }
    }
    clip(&out, 100)
}

/// Generic "decode" exploration: generate a server state (field choice points,
/// <= `bound` deviations), run the real query against the reference server in
/// order and loss-free, and require the result to equal the state.
/// `norm` is applied to both sides (used to drop fields the statement leaves open).
#[allow(clippy::too_many_arguments)]
pub fn explore_decode<S, T>(
    ctx: &mut Ctx,
    bound: usize,
    tag: &str,
    gen: impl Fn(&mut crate::vnet::Chooser) -> S,
    serve: impl Fn(&S) -> Box<dyn crate::vnet::Responder>,
    query: impl Fn() -> gamedig::GDResult<T>,
    expect: impl Fn(&S) -> T,
    norm: impl Fn(T) -> T,
) where
    T: PartialEq + std::fmt::Debug + serde::Serialize + Clone,
{
    let label = ctx.case_label.clone();
    crate::explore::explore(
        ctx,
        &crate::explore::ExploreCfg::bound(bound),
        |prefix| {
            let mut ch = crate::vnet::Chooser::new(prefix);
            let state = gen(&mut ch);
            let server = serve(&state);
            let x = crate::run::run_query(server, Box::new(crate::vnet::Faithful), ch, &query);
            (x.map_ok(&norm), state)
        },
        |ctx, x, state| {
            let exp = norm(expect(state));
            if check_equal(ctx, x, &exp, tag) {
                ctx.sample(serde_json::json!({"case": label, "choices": x.choices(), "wire_events": x.log.len(), "result": clip(&to_json(&exp).to_string(), 300)}));
            }
        },
    );
}


/// A loopback port with nothing behind it. Taken from below the kernel's ephemeral range (every listener of this harness
/// binds port 0, i.e. inside that range), so that no concurrently running worker can be handed the same number between
/// the moment it is probed here and the moment the client under test talks to it.
pub fn closed_port(ip: std::net::IpAddr, tcp: bool) -> Option<u16> {
    use std::sync::atomic::{AtomicU32, Ordering};
    static NEXT: AtomicU32 = AtomicU32::new(0);
    let base = 20_000u32 + (std::process::id() % 97) * 113;
    for _ in 0..2000 {
        let k = NEXT.fetch_add(1, Ordering::Relaxed);
        let port = (20_000 + (base - 20_000 + k * 7) % 11_000) as u16;
        let free = if tcp { std::net::TcpListener::bind((ip, port)).is_ok() } else { std::net::UdpSocket::bind((ip, port)).is_ok() };
        if free { return Some(port); }
    }
    None
}
