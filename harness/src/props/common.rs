//! Shared helpers for the property checks.

use crate::report::Ctx;
use crate::run::{Exec, Outcome};
use crate::vnet::render_log;
use serde_json::Value;
use std::net::{IpAddr, Ipv4Addr, SocketAddr};

pub const IP4: IpAddr = IpAddr::V4(Ipv4Addr::new(192, 0, 2, 77));
pub const PORT: u16 = 40_123;

pub fn addr() -> SocketAddr { SocketAddr::new(IP4, PORT) }

pub fn to_json<T: serde::Serialize>(t: &T) -> Value { canon(serde_json::to_value(t).unwrap_or(Value::Null)) }

/// Sort object keys recursively (serde_json keeps insertion order in this
/// dependency graph, and HashMap iteration order is random).
pub fn canon(v: Value) -> Value {
    match v {
        Value::Object(m) => {
            let mut entries: Vec<(String, Value)> = m.into_iter().map(|(k, v)| (k, canon(v))).collect();
            entries.sort_by(|a, b| a.0.cmp(&b.0));
            Value::Object(entries.into_iter().collect())
        }
        Value::Array(a) => Value::Array(a.into_iter().map(canon).collect()),
        other => other,
    }
}

/// Path of the first difference between two JSON values (None if equal).
pub fn first_diff(a: &Value, b: &Value) -> Option<String> {
    fn go(a: &Value, b: &Value, path: &mut String) -> bool {
        match (a, b) {
            (Value::Object(x), Value::Object(y)) => {
                for (k, v) in x {
                    match y.get(k) {
                        None => {
                            path.push_str(&format!(".{}<missing>", keyclass(k)));
                            return true;
                        }
                        Some(w) => {
                            let n = path.len();
                            path.push_str(&format!(".{}", keyclass(k)));
                            if go(v, w, path) {
                                return true;
                            }
                            path.truncate(n);
                        }
                    }
                }
                for k in y.keys() {
                    if !x.contains_key(k) {
                        path.push_str(&format!(".{}<unexpected>", keyclass(k)));
                        return true;
                    }
                }
                false
            }
            (Value::Array(x), Value::Array(y)) => {
                if x.len() != y.len() {
                    path.push_str("[len]");
                    return true;
                }
                for (v, w) in x.iter().zip(y.iter()) {
                    let n = path.len();
                    path.push_str("[]");
                    if go(v, w, path) {
                        return true;
                    }
                    path.truncate(n);
                }
                false
            }
            _ => {
                if a != b {
                    true
                } else {
                    false
                }
            }
        }
    }
    // keys that are data (rule names etc.) are abstracted so that classes stay coarse
    fn keyclass(k: &str) -> String {
        if k.len() > 24 || k.chars().any(|c| !(c.is_ascii_alphanumeric() || c == '_')) {
            "<key>".to_string()
        } else {
            k.to_string()
        }
    }
    let mut p = String::new();
    if go(a, b, &mut p) {
        Some(if p.is_empty() { "<root>".into() } else { p })
    } else {
        None
    }
}

pub fn clip(s: &str, n: usize) -> String {
    if s.len() <= n {
        s.to_string()
    } else {
        let cut = s.char_indices().nth(n).map_or(s.len(), |x| x.0);
        format!("{}…", &s[.. cut])
    }
}

/// Compare a decoded response with the reference model's expectation.
/// `tag` names the stratum (layout / framing) for the violation class.
pub fn check_equal<T: serde::Serialize + std::fmt::Debug + PartialEq>(
    ctx: &mut Ctx,
    x: &Exec<T>,
    expected: &T,
    tag: &str,
) -> bool {
    match &x.outcome {
        Outcome::Ok(got) => {
            if got == expected {
                return true;
            }
            let path = first_diff(&to_json(expected), &to_json(got)).unwrap_or_else(|| "<non-json difference>".into());
            ctx.violation(
                format!("decode-mismatch:{tag}:{path}"),
                &x.choices(),
                format!("decoded response differs from the server state at {path}"),
                clip(&to_json(got).to_string(), 1500),
                clip(&to_json(expected).to_string(), 1500),
                render_log(&x.log),
            );
            false
        }
        other => {
            ctx.violation(
                format!("decode-failure:{tag}:{}", other.class()),
                &x.choices(),
                "a well-formed reply was not decoded",
                match other {
                    Outcome::Ok(_) => unreachable!(),
                    Outcome::Err(k, s) => format!("Err({k:?}: {s})"),
                    Outcome::Panic { msg, loc } => format!("PANIC at {loc}: {msg}"),
                    Outcome::Hang(s) => format!("DID NOT RETURN: {s}"),
                    Outcome::Diverged(s) => format!("MACHINERY: {s}"),
                },
                clip(&to_json(expected).to_string(), 1500),
                render_log(&x.log),
            );
            false
        }
    }
}

/// Totality oracle (C01): anything but Ok/Err is a violation.
pub fn check_total<T: std::fmt::Debug>(ctx: &mut Ctx, x: &Exec<T>, tag: &str) -> bool {
    match &x.outcome {
        Outcome::Ok(_) | Outcome::Err(..) => true,
        Outcome::Panic { msg, loc } => {
            let file = loc.rsplit_once(':').map_or(loc.as_str(), |p| p.0);
            ctx.violation(
                format!("panic:{tag}:{file}:{}", panic_kind(msg)),
                &x.choices(),
                format!("query panicked at {loc}"),
                format!("panic: {msg}"),
                "Ok(..) or Err(..)",
                render_log(&x.log),
            );
            false
        }
        Outcome::Hang(why) => {
            ctx.violation(
                format!("hang:{tag}"),
                &x.choices(),
                "query does not return",
                why.clone(),
                "Ok(..) or Err(..) once the server is silent",
                render_log(&x.log),
            );
            false
        }
        Outcome::Diverged(_) => true,
    }
}

/// Normalise a panic message to its kind (drop the concrete numbers).
pub fn panic_kind(msg: &str) -> String {
    let mut out = String::new();
    let mut last_digit = false;
    for ch in msg.chars() {
        if ch.is_ascii_digit() {
            if !last_digit {
                out.push('N');
            }
            last_digit = true;
        } else {
            last_digit = false;
            out.push(ch);
        }
    }
    clip(&out, 100)
}
