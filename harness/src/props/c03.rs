//! C03 — Minecraft status replies decode exactly; auto-detect order holds.

use super::common::*;
use crate::explore::{explore, ExploreCfg};
use crate::prop::Prop;
use crate::report::{Ctx, Tier};
use crate::rsm::minecraft::*;
use crate::run::{run_query, Outcome};
use crate::vnet::{opens, render_log, Chooser, Faithful};
use gamedig::games::minecraft as mc;
use std::net::SocketAddr;
use std::sync::OnceLock;

#[derive(Clone, Debug)]
enum What {
    Java { via_settings: bool },
    Bedrock,
    Legacy(LegacyKind),
    /// the 1.4 ping (FE 01) answered in the paragraph-1 format, as 1.4 and 1.5 servers do
    Legacy14AnsweredInNewFormat,
    /// subset bitmask (java, bedrock, 1.6, 1.4, b1.8), port given?, entry 0..4
    Auto { subset: u8, port_given: bool, entry: u8 },
}

#[derive(Clone, Debug)]
struct Case {
    label: String,
    what: What,
    bound: usize,
}

const ENTRIES: [&str; 4] = ["minecraft::query", "minecraft::protocol::query", "minecraft::query_legacy", "generic dispatch Minecraft(None)"];

fn build(tier: Tier) -> Vec<Case> {
    let dev = if tier.is_thorough() { 2 } else { 1 };
    let mut v = vec![
        Case { label: format!("java status (default request settings) dev<={dev}"), what: What::Java { via_settings: false }, bound: dev },
        Case { label: format!("java status (custom request settings) dev<={}", dev.min(1)), what: What::Java { via_settings: true }, bound: dev.min(1) },
        Case { label: format!("bedrock pong dev<={dev}"), what: What::Bedrock, bound: dev },
        Case { label: format!("legacy 1.6 dev<={dev}"), what: What::Legacy(LegacyKind::V1_6), bound: dev },
        Case { label: format!("legacy 1.4 dev<={dev}"), what: What::Legacy(LegacyKind::V1_4), bound: dev },
        Case { label: format!("legacy beta 1.8 dev<={dev}"), what: What::Legacy(LegacyKind::VB1_8), bound: dev },
        Case { label: format!("legacy 1.4 ping answered in the 1.4-1.5 servers' format (section sign, 1, NUL-separated fields) dev<={dev}"), what: What::Legacy14AnsweredInNewFormat, bound: dev },
    ];
    for subset in 0 .. 32u8 {
        for port_given in [true, false] {
            for entry in 0 .. 4u8 {
                v.push(Case {
                    label: format!(
                        "auto-detect speaks={{{}}} port {} via {}",
                        ["java", "bedrock", "1.6", "1.4", "b1.8"].iter().enumerate().filter(|(i, _)| subset & (1 << i) != 0).map(|(_, n)| *n).collect::<Vec<_>>().join(","),
                        if port_given { "given" } else { "omitted" },
                        ENTRIES[entry as usize]
                    ),
                    what: What::Auto { subset, port_given, entry },
                    bound: 0,
                });
            }
        }
    }
    v
}

static QUICK: OnceLock<Vec<Case>> = OnceLock::new();
static THOROUGH: OnceLock<Vec<Case>> = OnceLock::new();
fn cases(tier: Tier) -> &'static Vec<Case> {
    match tier {
        Tier::Quick => QUICK.get_or_init(|| build(Tier::Quick)),
        Tier::Thorough => THOROUGH.get_or_init(|| build(Tier::Thorough)),
    }
}

/// description is stored as serialised JSON: compare as parsed JSON
fn norm_java(mut r: mc::JavaResponse) -> mc::JavaResponse {
    if r.server_type == mc::Server::Java {
        if let Ok(v) = serde_json::from_str::<serde_json::Value>(&r.description) {
            r.description = canon(v).to_string();
        }
    }
    r
}

pub struct C03;

impl Prop for C03 {
    fn id(&self) -> &'static str { "C03" }
    fn n_cases(&self, tier: Tier) -> usize { cases(tier).len() }
    fn case_label(&self, tier: Tier, idx: usize) -> String { cases(tier)[idx].label.clone() }
    fn rule(&self) -> String {
        "decode cases: for each of the five formats every status within <= bound field deviations of the default (JSON strings \
         with quotes/backslashes/non-BMP, description string/chat object/absent, sample absent/empty/1/12, optional members, a textual description lengthened until the JSON text or the whole packet has a length whose VarInt contains a byte 80 (253 / 256 / 381 / 384 / 16381 / 16384 bytes), \
         u32/i32 boundary values, Bedrock with 6..12 fields and each game mode, UTF-16 strings with surrogate pairs) must be \
         returned exactly. auto-detect cases: all 32 subsets of variants a server speaks x port given/omitted x 4 entry points; \
         oracle: variant label = first spoken variant in the order Java, Bedrock, 1.6, 1.4, b1.8, AutoQuery error iff none, and \
         the open log shows exactly the connections of that order up to the first answered one, on the documented ports"
            .into()
    }
    fn assumptions(&self) -> Vec<String> {
        vec![
            "formats per wiki.vg Server List Ping and the Bedrock unconnected pong".into(),
            "'answers variant v' = replies well-formedly to v's exact request on a fresh connection and stays silent otherwise".into(),
            "Java 'description' is compared as parsed JSON (the implementation stores its serialised form)".into(),
        ]
    }
    fn run_case(&self, tier: Tier, idx: usize, ctx: &mut Ctx) {
        let case = cases(tier)[idx].clone();
        let a = addr();
        match case.what.clone() {
            What::Java { via_settings } => {
                let settings = if via_settings {
                    Some(mc::RequestSettings { hostname: "mc.example.org".into(), protocol_version: 765 })
                } else {
                    None
                };
                explore_decode(
                    ctx,
                    case.bound,
                    "java",
                    gen_java,
                    |s| {
                        let mut m = McServer::none();
                        m.java = Some(s.clone());
                        Box::new(m)
                    },
                    || mc::protocol::query_java(&a, None, settings.clone()),
                    |s| s.expected(),
                    norm_java,
                );
            }
            What::Bedrock => {
                explore_decode(
                    ctx,
                    case.bound,
                    "bedrock",
                    gen_bedrock,
                    |s| {
                        let mut m = McServer::none();
                        m.bedrock = Some(s.clone());
                        Box::new(m)
                    },
                    || mc::protocol::query_bedrock(&a, None),
                    |s| s.expected(),
                    |t| t,
                );
            }
            What::Legacy(kind) => {
                let group = match kind {
                    LegacyKind::V1_6 => mc::LegacyGroup::V1_6,
                    LegacyKind::V1_4 => mc::LegacyGroup::V1_4,
                    LegacyKind::VB1_8 => mc::LegacyGroup::VB1_8,
                };
                explore_decode(
                    ctx,
                    case.bound,
                    &format!("legacy-{kind:?}"),
                    move |c| gen_legacy(c, kind),
                    move |s| {
                        let mut m = McServer::none();
                        match kind {
                            LegacyKind::V1_6 => m.v1_6 = Some(s.clone()),
                            LegacyKind::V1_4 => m.v1_4 = Some(s.clone()),
                            LegacyKind::VB1_8 => m.vb1_8 = Some(s.clone()),
                        }
                        Box::new(m)
                    },
                    move || mc::protocol::query_legacy_specific(group, &a, None),
                    |s| s.expected(),
                    |t| t,
                );
            }
            What::Legacy14AnsweredInNewFormat => {
                explore_decode(
                    ctx,
                    case.bound,
                    "legacy-V1_4-new-format",
                    // the state is one of the NUL-separated format; the server gives it in answer to the 1.4 ping
                    move |c| gen_legacy(c, LegacyKind::V1_6),
                    move |s| {
                        let mut m = McServer::none();
                        m.v1_4 = Some(s.clone());
                        Box::new(m)
                    },
                    move || mc::protocol::query_legacy_specific(mc::LegacyGroup::V1_4, &a, None),
                    |s| s.expected(),
                    // which of the two legacy groups such an answer is labelled with is not fixed by the formats
                    |mut t| {
                        if matches!(t.server_type, mc::Server::Legacy(mc::LegacyGroup::V1_4 | mc::LegacyGroup::V1_6)) {
                            t.server_type = mc::Server::Legacy(mc::LegacyGroup::V1_6);
                        }
                        t
                    },
                );
            }
            What::Auto { subset, port_given, entry } => {
                explore(
                    ctx,
                    &ExploreCfg::bound(0),
                    |prefix| {
                        let mut ch = Chooser::new(prefix);
                        let mut none = Chooser::new(&[]);
                        let mut m = McServer::none();
                        if subset & 1 != 0 {
                            m.java = Some(gen_java(&mut none));
                        }
                        if subset & 2 != 0 {
                            m.bedrock = Some(gen_bedrock(&mut none));
                        }
                        if subset & 4 != 0 {
                            m.v1_6 = Some(gen_legacy(&mut none, LegacyKind::V1_6));
                        }
                        if subset & 8 != 0 {
                            m.v1_4 = Some(gen_legacy(&mut none, LegacyKind::V1_4));
                        }
                        if subset & 16 != 0 {
                            m.vb1_8 = Some(gen_legacy(&mut none, LegacyKind::VB1_8));
                        }
                        let _ = &mut ch;
                        let port = if port_given { Some(PORT) } else { None };
                        let server = m.clone();
                        let x = run_query(Box::new(server), Box::new(Faithful), ch, || {
                            match entry {
                                0 => mc::query(&IP4, port),
                                1 => mc::protocol::query(&SocketAddr::new(IP4, port.unwrap_or(25565)), None, None),
                                2 => mc::query_legacy(&IP4, port),
                                _ => {
                                    let game = gamedig::GAMES.get("minecraft").expect("minecraft definition");
                                    let r = gamedig::query_with_timeout_and_extra_settings(game, &IP4, port, None, None)?;
                                    match r.as_original() {
                                        gamedig::protocols::GenericResponse::Minecraft(mc::VersionedResponse::Java(j)) => Ok(j.clone()),
                                        other => panic!("generic minecraft query returned {other:?}"),
                                    }
                                }
                            }
                        });
                        (x.map_ok(norm_java), m)
                    },
                    |ctx, x, m| {
                        // order in which variants are tried, with (tcp, default port)
                        let order: Vec<(u8, bool, u16)> = match entry {
                            2 => vec![(4, true, 25565), (8, true, 25565), (16, true, 25565)],
                            0 => vec![(1, true, 25565), (2, false, 19132), (4, true, 25565), (8, true, 25565), (16, true, 25565)],
                            // SocketAddr-based entry points use one port for every variant
                            _ => vec![(1, true, 25565), (2, false, 25565), (4, true, 25565), (8, true, 25565), (16, true, 25565)],
                        };
                        let mut exp_opens: Vec<(bool, SocketAddr)> = Vec::new();
                        let mut winner: Option<u8> = None;
                        for (bit, tcp, defport) in &order {
                            let p = if port_given { PORT } else { *defport };
                            exp_opens.push((*tcp, SocketAddr::new(IP4, p)));
                            if subset & bit != 0 {
                                winner = Some(*bit);
                                break;
                            }
                        }
                        let expected: Result<mc::JavaResponse, ()> = match winner {
                            None => Err(()),
                            Some(1) => Ok(norm_java(m.java.as_ref().unwrap().expected())),
                            // (reference value written out here, not produced by the conversion under test; the Java-shaped
                            // response has no place for Bedrock's textual protocol version: the numeric field is not compared)
                            Some(2) => {
                                let b = m.bedrock.as_ref().unwrap().expected();
                                Ok(mc::JavaResponse {
                                    game_version: b.version_name.clone(),
                                    protocol_version: 0,
                                    players_maximum: b.players_maximum,
                                    players_online: b.players_online,
                                    players: None,
                                    description: b.name.clone(),
                                    favicon: None,
                                    previews_chat: None,
                                    enforces_secure_chat: None,
                                    server_type: mc::Server::Bedrock,
                                })
                            }
                            Some(4) => Ok(m.v1_6.as_ref().unwrap().expected()),
                            Some(8) => Ok(m.v1_4.as_ref().unwrap().expected()),
                            _ => Ok(m.vb1_8.as_ref().unwrap().expected()),
                        };
                        let tag = format!("auto:{}", ENTRIES[entry as usize]);
                        let got_norm = x.outcome.ok().cloned().map(|mut g| {
                            if winner == Some(2) {
                                g.protocol_version = 0;
                            }
                            g
                        });
                        match (&x.outcome, &expected) {
                            (Outcome::Ok(_), Ok(exp)) => {
                                let got = got_norm.as_ref().unwrap();
                                if got != exp {
                                    let path = first_diff(&to_json(exp), &to_json(got)).unwrap_or_default();
                                    ctx.violation(
                                        format!("auto-detect-result:{tag}:{path}"),
                                        &x.choices(),
                                        "auto-detecting query returned a different response than the first spoken variant's",
                                        to_json(got).to_string(),
                                        to_json(exp).to_string(),
                                        render_log(&x.log),
                                    );
                                }
                            }
                            (Outcome::Err(k, _), Err(())) if *k == gamedig::GDErrorKind::AutoQuery => {}
                            (o, e) => {
                                ctx.violation(
                                    format!("auto-detect-outcome:{tag}:{}", o.class()),
                                    &x.choices(),
                                    "auto-detecting query outcome differs from the documented fall-through",
                                    o.describe_json(),
                                    match e {
                                        Ok(r) => to_json(r).to_string(),
                                        Err(()) => "Err(AutoQuery)".into(),
                                    },
                                    render_log(&x.log),
                                );
                            }
                        }
                        let got_opens = opens(&x.log);
                        if got_opens != exp_opens {
                            ctx.violation(
                                format!("auto-detect-order:{tag}"),
                                &x.choices(),
                                "connections opened differ from the documented order Java, Bedrock, 1.6, 1.4, b1.8 (up to the first answered)",
                                format!("{got_opens:?}"),
                                format!("{exp_opens:?}"),
                                render_log(&x.log),
                            );
                        } else {
                            ctx.sample(serde_json::json!({"case": case.label, "opens": format!("{got_opens:?}"), "winner_bit": winner}));
                        }
                    },
                );
            }
        }
    }
}
