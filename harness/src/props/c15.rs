//! C15 — the protocol-independent view equals the protocol-specific data.

use super::c02::EngineCfg;
use super::common::*;
use crate::explore::{explore, ExploreCfg};
use crate::prop::Prop;
use crate::report::{Ctx, Tier};
use crate::rsm::gamespy::*;
use crate::rsm::minecraft::*;
use crate::rsm::misc::*;
use crate::rsm::quake::*;
use crate::rsm::unreal2::*;
use crate::rsm::valve as rv;
use crate::run::{Exec, Outcome};
use crate::vnet::Chooser;
use gamedig::protocols::types::CommonResponse;
use serde_json::{json, Value};

/// (accessor, JSON pointer into the serialised specific response) — written
/// from RESPONSES.md and the type definitions. `None` pointer = the accessor
/// must be None. Accessors not listed for a type are unconstrained.
struct Table {
    name: &'static str,
    fields: &'static [(&'static str, Option<&'static str>)],
    /// pointer to the player list and the (name, score) members of a player
    players: Option<(&'static str, &'static str, Option<&'static str>)>,
    /// None: players() must be None
    players_none: bool,
}

const VALVE: Table = Table {
    name: "valve::Response",
    fields: &[
        ("name", Some("/info/name")),
        ("description", None),
        ("game_mode", Some("/info/game_mode")),
        ("game_version", Some("/info/game_version")),
        ("map", Some("/info/map")),
        ("players_maximum", Some("/info/players_maximum")),
        ("players_online", Some("/info/players_online")),
        ("players_bots", Some("/info/players_bots")),
        ("has_password", Some("/info/has_password")),
    ],
    players: Some(("/players", "name", Some("score"))),
    players_none: false,
};
const GS1: Table = Table {
    name: "gamespy::one::Response",
    fields: &[
        ("name", Some("/name")),
        ("description", None),
        ("game_mode", Some("/game_mode")),
        ("game_version", Some("/game_version")),
        ("map", Some("/map")),
        ("players_maximum", Some("/players_maximum")),
        ("players_online", Some("/players_online")),
        ("players_bots", None),
        ("has_password", Some("/has_password")),
    ],
    players: Some(("/players", "name", Some("score"))),
    players_none: false,
};
const GS2: Table = Table {
    name: "gamespy::two::Response",
    fields: &[
        ("name", Some("/name")),
        ("description", None),
        ("game_mode", None),
        ("game_version", None),
        ("map", Some("/map")),
        ("players_maximum", Some("/players_maximum")),
        ("players_online", Some("/players_online")),
        ("players_bots", None),
        ("has_password", Some("/has_password")),
    ],
    players: Some(("/players", "name", Some("score"))),
    players_none: false,
};
const QUAKE: Table = Table {
    name: "quake::Response",
    fields: &[
        ("name", Some("/name")),
        ("description", None),
        ("game_mode", None),
        ("game_version", Some("/game_version")),
        ("map", Some("/map")),
        ("players_maximum", Some("/players_maximum")),
        ("players_online", Some("/players_online")),
        ("players_bots", None),
        ("has_password", None),
    ],
    players: Some(("/players", "name", Some("score"))),
    players_none: false,
};
const UNREAL2: Table = Table {
    name: "unreal2::Response",
    fields: &[
        ("name", Some("/server_info/name")),
        ("description", None),
        ("game_mode", Some("/server_info/game_type")),
        ("game_version", None),
        ("map", Some("/server_info/map")),
        ("players_maximum", Some("/server_info/max_players")),
        ("players_online", Some("/server_info/num_players")),
        ("has_password", Some("/server_info/password")),
    ],
    players: Some(("/players/players", "name", Some("score"))),
    players_none: false,
};
const JAVA: Table = Table {
    name: "minecraft::JavaResponse",
    fields: &[
        ("name", None),
        ("description", Some("/description")),
        ("game_mode", None),
        ("game_version", Some("/game_version")),
        ("map", None),
        ("players_maximum", Some("/players_maximum")),
        ("players_online", Some("/players_online")),
        ("players_bots", None),
        ("has_password", None),
    ],
    players: Some(("/players", "name", None)),
    players_none: false,
};
const BEDROCK: Table = Table {
    name: "minecraft::BedrockResponse",
    fields: &[
        ("name", Some("/name")),
        ("description", None),
        ("game_version", Some("/version_name")),
        ("map", Some("/map")),
        ("players_maximum", Some("/players_maximum")),
        ("players_online", Some("/players_online")),
        ("players_bots", None),
        ("has_password", None),
    ],
    players: None,
    players_none: true,
};
const FFOW: Table = Table {
    name: "ffow::Response",
    fields: &[
        ("name", Some("/name")),
        ("description", Some("/description")),
        ("game_mode", Some("/game_mode")),
        ("game_version", Some("/game_version")),
        ("map", Some("/map")),
        ("players_maximum", Some("/players_maximum")),
        ("players_online", Some("/players_online")),
        ("players_bots", None),
        ("has_password", Some("/has_password")),
    ],
    players: None,
    players_none: true,
};
const THESHIP: Table = Table {
    name: "theship::Response",
    fields: &[
        ("name", Some("/name")),
        ("description", None),
        ("game_mode", Some("/game_mode")),
        ("game_version", Some("/game_version")),
        ("map", Some("/map")),
        ("players_maximum", Some("/players_maximum")),
        ("players_online", Some("/players_online")),
        ("players_bots", Some("/players_bots")),
        ("has_password", Some("/has_password")),
    ],
    players: Some(("/players", "name", Some("score"))),
    players_none: false,
};
const JC2M: Table = Table {
    name: "jc2m::Response",
    fields: &[
        ("name", Some("/name")),
        ("description", Some("/description")),
        ("game_mode", None),
        ("game_version", Some("/game_version")),
        ("map", None),
        ("players_maximum", Some("/players_maximum")),
        ("players_online", Some("/players_online")),
        ("players_bots", None),
        ("has_password", Some("/has_password")),
    ],
    players: Some(("/players", "name", None)),
    players_none: false,
};
const SAVAGE2: Table = Table {
    name: "savage2::Response",
    fields: &[
        ("name", Some("/name")),
        ("description", None),
        ("game_mode", Some("/game_mode")),
        ("game_version", None),
        ("map", Some("/map")),
        ("players_maximum", Some("/players_maximum")),
        ("players_online", Some("/players_online")),
        ("players_bots", None),
        ("has_password", None),
    ],
    players: None,
    players_none: true,
};
const MINDUSTRY: Table = Table {
    name: "mindustry::ServerData",
    fields: &[
        ("description", Some("/description")),
        ("map", Some("/map")),
        ("game_mode", Some("~/gamemode")),
        ("game_version", None),
        ("players_bots", None),
        ("has_password", None),
        // (signed 32-bit fields behind unsigned accessors: constrained where the value is representable)
        ("players_online", Some("+/players")),
        ("players_maximum", Some("+/player_limit")),
    ],
    players: None,
    players_none: true,
};
const ECO: Table = Table {
    name: "eco::Response",
    fields: &[
        ("name", None),
        ("description", Some("/description")),
        ("game_mode", None),
        ("game_version", Some("/game_version")),
        ("map", None),
        ("players_maximum", Some("/players_maximum")),
        ("players_online", Some("/players_online")),
        ("players_bots", None),
        ("has_password", Some("/has_password")),
    ],
    players: Some(("/players", "name", None)),
    players_none: false,
};

/// Deviate the specific fields behind the generic accessors directly on the response value (so that, for
/// instance, a stored count differs from the length of the stored list), through its serde form.
fn mutate<T: serde::Serialize + serde::de::DeserializeOwned>(t: &Table, r: T, c: &mut Chooser) -> T {
    let mut v = match serde_json::to_value(&r) {
        Ok(v) => v,
        Err(_) => return r,
    };
    let mut changed = false;
    let mut ptrs: Vec<String> = t.fields.iter().filter_map(|(_, p)| p.map(|x| x.trim_start_matches('+').to_string())).collect();
    if let Some((pp, name_key, score_key)) = &t.players {
        ptrs.push(format!("{pp}/0/{name_key}"));
        if let Some(sk) = score_key {
            ptrs.push(format!("{pp}/0/{sk}"));
        }
    }
    for ptr in ptrs {
        let alt = crate::rsm::pick(c, &[0u8, 1, 2, 3, 4, 5]);
        if alt == 0 {
            continue;
        }
        if let Some(slot) = v.pointer_mut(&ptr) {
            let new = match &*slot {
                Value::Number(_) => json!(match alt { 1 => 1, 2 => 200, 3 => 0, 4 => 255, _ => 127 }),
                Value::Bool(b) => json!(!*b),
                // (text with blanks, a tab and a line end at its edges and non-ASCII inside: the view must not tidy it)
                Value::String(_) => json!(match alt { 1 => "Zq", 2 => "", 3 => " \t padded  \n", 4 => "Zürich 東京", _ => "\"quoted\"" }),
                _ => continue,
            };
            if *slot != new {
                *slot = new;
                changed = true;
            }
        }
    }
    // two neighbouring players that are equal in every respect (two clients still connecting, two default names): the views
    // must list both
    if let Some((pp, _, _)) = &t.players {
        if crate::rsm::pick(c, &[false, true]) {
            if let Some(Value::Array(list)) = v.pointer_mut(pp) {
                if let Some(first) = list.first().cloned() {
                    list.insert(1, first);
                    changed = true;
                }
            }
        }
    }
    // every key-like name the library's sources mention (harvested at build time), present as an otherwise uninterpreted
    // entry / rule with a small numeric text as its value: the view may not consult any of them behind the fields' back
    if crate::rsm::pick(c, &[false, true]) {
        for (ptr, as_list) in [("/unused_entries", false), ("/rules", false), ("/mutators_and_rules/rules", true)] {
            if let Some(Value::Object(map)) = v.pointer_mut(ptr) {
                for k in crate::targets::MAGIC_KEYS {
                    if !map.contains_key(*k) {
                        map.insert(k.to_string(), if as_list { json!(["4"]) } else { json!("4") });
                        changed = true;
                    }
                }
            }
        }
    }
    if !changed {
        return r;
    }
    serde_json::from_value(v).unwrap_or(r)
}

/// Check one response value against its table. Returns (class, detail, observed, expected) on failure.
fn check_view(t: &Table, r: &dyn CommonResponse, specific: &Value) -> Option<(String, String, String, String)> {
    let acc: Vec<(&str, Value)> = vec![
        ("name", json!(r.name())),
        ("description", json!(r.description())),
        ("game_mode", json!(r.game_mode())),
        ("game_version", json!(r.game_version())),
        ("map", json!(r.map())),
        ("players_maximum", json!(r.players_maximum())),
        ("players_online", json!(r.players_online())),
        ("players_bots", json!(r.players_bots())),
        ("has_password", json!(r.has_password())),
    ];
    let cj = to_json(&r.as_json());
    for (name, got) in &acc {
        let Some((_, ptr)) = t.fields.iter().find(|(n, _)| n == name) else { continue };
        // `~/pointer`: the specific field is an enum; the view gives its name as text, compared without regard to case
        let want = match ptr {
            None => Value::Null,
            Some(p) if p.starts_with('~') => {
                let w = specific.pointer(&p[1 ..]).cloned().unwrap_or(Value::Null);
                match (&w, got) {
                    (Value::String(a), Value::String(b)) if a.to_lowercase() == b.to_lowercase() => got.clone(),
                    _ => w,
                }
            }
            // `+/pointer`: a signed field behind an unsigned accessor; equal where the value fits, unconstrained where it cannot
            Some(p) if p.starts_with('+') => {
                let w = specific.pointer(&p[1 ..]).cloned().unwrap_or(Value::Null);
                match w.as_u64() {
                    Some(n) if n <= u32::MAX as u64 => w,
                    _ => got.clone(),
                }
            }
            Some(p) => specific.pointer(p).cloned().unwrap_or(Value::Null),
        };
        if *got != want {
            return Some((format!("generic-accessor:{}:{name}", t.name), format!("{}::{name}()", t.name), got.to_string(), format!("{want} (specific field {ptr:?})")));
        }
        // as_json must contain exactly the accessor values
        let in_json = cj.get(*name).cloned().unwrap_or(Value::Null);
        if in_json != *got {
            return Some((format!("generic-json:{}:{name}", t.name), format!("as_json().{name}"), in_json.to_string(), got.to_string()));
        }
    }
    // players
    let players = r.players();
    let pj = cj.get("players").cloned().unwrap_or(Value::Null);
    match (&t.players, players) {
        (None, got) => {
            if t.players_none && got.is_some() {
                return Some((format!("generic-accessor:{}:players", t.name), "players()".into(), "Some(..)".into(), "None".into()));
            }
        }
        (Some((ptr, name_key, score_key)), got) => {
            let spec = specific.pointer(ptr).cloned().unwrap_or(Value::Null);
            match (spec, got) {
                (Value::Null, None) => {
                    if !pj.is_null() {
                        return Some((format!("generic-json:{}:players", t.name), "as_json().players".into(), pj.to_string(), "null".into()));
                    }
                }
                (Value::Array(list), Some(got)) => {
                    if list.len() != got.len() {
                        return Some((format!("generic-accessor:{}:players", t.name), "players().len()".into(), got.len().to_string(), list.len().to_string()));
                    }
                    if pj.as_array().map(|a| a.len()) != Some(list.len()) {
                        return Some((format!("generic-json:{}:players", t.name), "as_json().players length".into(), pj.as_array().map_or("not a list".to_string(), |a| a.len().to_string()), list.len().to_string()));
                    }
                    for (i, (s, g)) in list.iter().zip(got.iter()).enumerate() {
                        let want_name = s.get(*name_key).cloned().unwrap_or(Value::Null);
                        let want_score = match score_key {
                            None => Value::Null,
                            Some(k) => s.get(*k).cloned().unwrap_or(Value::Null),
                        };
                        if json!(g.name()) != want_name {
                            return Some((format!("generic-accessor:{}:player-name", t.name), format!("players()[{i}].name()"), json!(g.name()).to_string(), want_name.to_string()));
                        }
                        if json!(g.score()) != want_score {
                            return Some((format!("generic-accessor:{}:player-score", t.name), format!("players()[{i}].score()"), json!(g.score()).to_string(), want_score.to_string()));
                        }
                        let pji = pj.get(i).cloned().unwrap_or(Value::Null);
                        if pji != json!({"name": g.name(), "score": g.score()}) {
                            return Some((format!("generic-json:{}:player", t.name), format!("as_json().players[{i}]"), pji.to_string(), json!({"name": g.name(), "score": g.score()}).to_string()));
                        }
                        // the original player is retrievable unchanged
                        let orig = to_json(&g.as_original());
                        let inner = strip_enum(&orig);
                        if inner != *s {
                            return Some((format!("generic-original:{}:player", t.name), format!("players()[{i}].as_original()"), inner.to_string(), s.to_string()));
                        }
                    }
                }
                (s, g) => {
                    return Some((format!("generic-accessor:{}:players", t.name), "players()".into(), format!("{}", if g.is_some() { "Some(..)" } else { "None" }), s.to_string()));
                }
            }
        }
    }
    // the original response is retrievable unchanged
    let orig = to_json(&r.as_original());
    let inner = strip_enum(&orig);
    if inner != *specific {
        return Some((format!("generic-original:{}", t.name), "as_original()".into(), clip(&inner.to_string(), 600), clip(&specific.to_string(), 600)));
    }
    None
}

/// `{"Variant": x}` / `{"Outer": {"Inner": x}}` -> x (GenericResponse / GenericPlayer wrap references in enums)
fn strip_enum(v: &Value) -> Value {
    let mut cur = v;
    loop {
        match cur {
            Value::Object(m) if m.len() == 1 => {
                let (k, inner) = m.iter().next().unwrap();
                if k.chars().next().map_or(false, |c| c.is_ascii_uppercase()) {
                    cur = inner;
                    continue;
                }
                return cur.clone();
            }
            _ => return cur.clone(),
        }
    }
}

const KINDS: [&str; 15] = [
    "valve", "gamespy1", "gamespy2", "gamespy3", "quake1", "quake2", "unreal2", "java", "bedrock", "ffow", "theship", "jc2m", "savage2", "mindustry", "eco",
];

pub struct C15;

impl Prop for C15 {
    fn id(&self) -> &'static str { "C15" }
    fn n_cases(&self, _tier: Tier) -> usize { KINDS.len() }
    fn case_label(&self, tier: Tier, idx: usize) -> String { format!("{} response values, <= {} field deviations", KINDS[idx], if tier.is_thorough() { 2 } else { 1 }) }
    fn rule(&self) -> String {
        "for each of the 15 CommonResponse implementors (and through them the 11 CommonPlayer implementors) every response \
         value within <= 1 (quick) / 2 (thorough) field deviations of the default over the boundary alphabets is built directly \
         (the reference model's expected value, no network); a table written from RESPONSES.md and the type definitions gives, per \
         type, the specific field each generic accessor corresponds to (blank cell and no corresponding field => None): every \
         accessor must return exactly that field's value, as_json() must contain exactly the accessor values, every player's \
         name/score likewise (also with two equal neighbouring players: the lists have the same length), and with every key-like string literal of the library's sources (harvested at build time) present as an uninterpreted entry / rule, and as_original() (response and players) must serialise to exactly the original value. \
         distinct_nontrivial = distinct response values"
            .into()
    }
    fn assumptions(&self) -> Vec<String> {
        vec!["Bedrock game_mode (non-string specific type), Mindustry name, and Unreal 2 players_bots are left unconstrained; Mindustry's player counts (signed 32-bit fields behind unsigned accessors) are constrained where the value is representable and unconstrained for negative values, for which no exact unsigned value exists".into()]
    }
    fn run_case(&self, tier: Tier, idx: usize, ctx: &mut Ctx) {
        let bound = if tier.is_thorough() { 2 } else { 1 };
        let kind = KINDS[idx];
        let label = self.case_label(tier, idx);
        explore(
            ctx,
            &ExploreCfg::bound(bound),
            |prefix| {
                let mut c = Chooser::new(prefix);
                let verdict: Option<(String, String, String, String)> = match kind {
                    "valve" => {
                        let s = rv::gen_state(&mut c, rv::Layout::Source, Some(0xF1), 440, (b'd', b'l'), &[2, 0, 1], &[2, 0]);
                        let with_players = crate::rsm::pick(&mut c, &[true, false]);
                        let r = mutate(&VALVE, rv::expected(&s, false, &EngineCfg::App440.engine(), with_players, true), &mut c);
                        check_view(&VALVE, &r, &to_json(&r))
                    }
                    "gamespy1" => {
                        let r = mutate(&GS1, gen_gs1(&mut c, &[2, 0, 1]).expected(), &mut c);
                        check_view(&GS1, &r, &to_json(&r))
                    }
                    "gamespy2" => {
                        let r = mutate(&GS2, gen_gs2(&mut c, &[2, 0, 1], &[2, 0]).expected(), &mut c);
                        check_view(&GS2, &r, &to_json(&r))
                    }
                    "gamespy3" => {
                        let r = mutate(&GS1, gen_gs3(&mut c, &[2, 0, 1], &[2, 0]).expected(), &mut c);
                        check_view(&GS1, &r, &to_json(&r))
                    }
                    "quake1" => {
                        let r = mutate(&QUAKE, gen_quake(&mut c, Ver::One, &[2, 0, 1], false).expected_one(), &mut c);
                        check_view(&QUAKE, &r, &to_json(&r))
                    }
                    "quake2" => {
                        let r = mutate(&QUAKE, gen_quake(&mut c, Ver::Three, &[2, 0, 1], false).expected_two(), &mut c);
                        check_view(&QUAKE, &r, &to_json(&r))
                    }
                    "unreal2" => {
                        let r = mutate(&UNREAL2, gen_u2(&mut c, &[3, 0], &[2, 0, 1]).expected(true, true), &mut c);
                        check_view(&UNREAL2, &r, &to_json(&r))
                    }
                    "java" => {
                        let r = mutate(&JAVA, gen_java(&mut c).expected(), &mut c);
                        check_view(&JAVA, &r, &to_json(&r))
                    }
                    "bedrock" => {
                        let r = mutate(&BEDROCK, gen_bedrock(&mut c).expected(), &mut c);
                        check_view(&BEDROCK, &r, &to_json(&r))
                    }
                    "ffow" => {
                        let r = mutate(&FFOW, gen_ffow(&mut c).expected(), &mut c);
                        check_view(&FFOW, &r, &to_json(&r))
                    }
                    "theship" => {
                        let s = rv::gen_state(&mut c, rv::Layout::Ship, Some(0xF0), 2400, (b'd', b'l'), &[2, 0, 1], &[2, 0]);
                        let v = rv::expected(&s, false, &EngineCfg::Ship2400.engine(), true, true);
                        let r = mutate(&THESHIP, gamedig::games::theship::Response::new_from_valve_response(v).expect("ship conversion"), &mut c);
                        check_view(&THESHIP, &r, &to_json(&r))
                    }
                    "jc2m" => {
                        let r = mutate(&JC2M, gen_jc2m(&mut c, &[2, 0, 1]).expected(), &mut c);
                        check_view(&JC2M, &r, &to_json(&r))
                    }
                    "savage2" => {
                        let r = mutate(&SAVAGE2, gen_savage2(&mut c).expected(), &mut c);
                        check_view(&SAVAGE2, &r, &to_json(&r))
                    }
                    "mindustry" => {
                        let r = mutate(&MINDUSTRY, gen_mindustry(&mut c).expected(), &mut c);
                        check_view(&MINDUSTRY, &r, &to_json(&r))
                    }
                    _ => {
                        let r = mutate(&ECO, super::eco::gen_eco(&mut c).expected(), &mut c);
                        check_view(&ECO, &r, &to_json(&r))
                    }
                };
                let x: Exec<()> = Exec { outcome: Outcome::Ok(()), log: vec![], points: c.points.clone(), alloc: Default::default(), ops: 12 };
                (x, verdict)
            },
            |ctx, x, verdict| {
                ctx.distinct_key(&(kind, x.choices()));
                match verdict {
                    None => {
                        if x.choices().iter().filter(|c| **c != 0).count() == 1 {
                            ctx.sample(json!({"case": label, "choices": x.choices()}));
                        }
                    }
                    Some((class, detail, got, want)) => ctx.violation(class.clone(), &x.choices(), detail.clone(), got.clone(), want.clone(), vec![]),
                }
            },
        );
    }
}
