//! C02 — Valve A2S replies are decoded field for field.

use super::common::*;
use crate::explore::{explore, ExploreCfg};
use crate::prop::Prop;
use crate::report::{Ctx, Tier};
use crate::rsm::valve::*;
use crate::run::run_query;
use crate::vnet::{Chooser, Faithful};
use gamedig::protocols::types::GatherToggle;
use gamedig::protocols::valve::{self, Engine, GatheringSettings};
use std::sync::OnceLock;

#[derive(Clone, Copy, Debug, PartialEq, Eq, Hash)]
pub enum EngineCfg {
    SourceNone,
    App440,
    Css240,
    Ship2400,
    Ror2,
    GoldFalse,
    GoldObsolete,
    /// an engine with a dedicated-server app id besides the main one (Operation: Harsh Doorstop, 736590 / 950900), against a
    /// server reporting the main id / the dedicated id. Not part of `ALL`: used by the app-id cases of C02 only.
    OhdMain,
    OhdDedicated,
}

impl EngineCfg {
    pub const ALL: [EngineCfg; 7] = [
        EngineCfg::SourceNone,
        EngineCfg::App440,
        EngineCfg::Css240,
        EngineCfg::Ship2400,
        EngineCfg::Ror2,
        EngineCfg::GoldFalse,
        EngineCfg::GoldObsolete,
    ];
    pub fn engine(self) -> Engine {
        match self {
            EngineCfg::SourceNone => Engine::Source(None),
            EngineCfg::App440 => Engine::new(440),
            EngineCfg::Css240 => Engine::new(240),
            EngineCfg::Ship2400 => Engine::new(2400),
            EngineCfg::Ror2 => Engine::new(632_360),
            EngineCfg::GoldFalse => Engine::new_gold_src(false),
            EngineCfg::GoldObsolete => Engine::new_gold_src(true),
            EngineCfg::OhdMain | EngineCfg::OhdDedicated => Engine::new_with_dedicated(736_590, 950_900),
        }
    }
    /// the app id the server reports where it only fits the 64-bit game id
    pub fn wide_appid(self) -> Option<u64> {
        match self {
            EngineCfg::Ror2 => Some(632_360),
            EngineCfg::OhdMain => Some(736_590),
            EngineCfg::OhdDedicated => Some(950_900),
            _ => None,
        }
    }
    pub fn layout(self) -> Layout {
        match self {
            EngineCfg::Ship2400 => Layout::Ship,
            EngineCfg::GoldObsolete => Layout::Obsolete,
            _ => Layout::Source,
        }
    }
    pub fn appid(self) -> u16 {
        match self {
            EngineCfg::SourceNone | EngineCfg::App440 => 440,
            EngineCfg::Css240 => 240,
            EngineCfg::Ship2400 => 2400,
            EngineCfg::Ror2 | EngineCfg::OhdMain | EngineCfg::OhdDedicated => 0, // 632 360 etc. do not fit in 16 bits: reported through the game id
            EngineCfg::GoldFalse | EngineCfg::GoldObsolete => 10,
        }
    }
    pub fn gold(self) -> bool { matches!(self, EngineCfg::GoldFalse | EngineCfg::GoldObsolete) }
}

#[derive(Clone, Debug)]
enum Kind {
    /// protocol-level valve::query
    Protocol,
    /// a macro-generated per-game wrapper
    Wrapper(&'static str),
}

#[derive(Clone, Debug)]
struct Case {
    label: String,
    engine: EngineCfg,
    edf: Option<u8>,
    type_bytes: (u8, u8),
    /// framing applied to (info, players, rules); cut offsets are resolved per payload
    framing: [Fr; 3],
    rounds: [usize; 3],
    player_counts: Vec<usize>,
    rule_counts: Vec<usize>,
    bound: usize,
    kind: Kind,
    /// info.protocol forced to this value (None: the generator's choice point)
    protocol: Option<u8>,
    /// arrival order of the datagrams of a split answer (Transport::delivery)
    delivery: u8,
    /// bzip2 block size of the server in 100 kB units (9 = library default)
    bz_level: u8,
}

/// Framing recipe (cut offsets depend on the payload, so they are symbolic here).
#[derive(Clone, Debug, PartialEq)]
enum Fr {
    Single,
    SourceEven(usize),
    SourceAt(usize),
    SourceCompressed(usize),
    /// even split announcing the size at which it was split (instead of the default 1248), plain / bzip2
    SourceExact(usize, bool),
    GoldEven(usize),
    GoldAt(usize),
}

impl Fr {
    fn tag(&self) -> String {
        match self {
            Fr::Single => "single".into(),
            Fr::SourceEven(k) => format!("source-split{k}"),
            Fr::SourceAt(_) => "source-split2".into(),
            Fr::SourceCompressed(k) => format!("source-bz2-split{k}"),
            Fr::SourceExact(k, z) => format!("source-{}split{k}-announcing-its-size", if *z { "bz2-" } else { "" }),
            Fr::GoldEven(k) => format!("goldsrc-split{k}"),
            Fr::GoldAt(_) => "goldsrc-split2".into(),
        }
    }
    fn resolve(&self, payload_len: usize, size_field: bool, id: u32) -> Framing {
        match self {
            Fr::Single => Framing::Single,
            Fr::SourceEven(k) => {
                Framing::Source {
                    cuts: crate::rsm::even_cuts(payload_len, *k),
                    compressed: false,
                    size_field, exact_size: false,
                    id,
                }
            }
            Fr::SourceAt(c) => {
                Framing::Source {
                    cuts: vec![(*c).min(payload_len.saturating_sub(1)).max(1)],
                    compressed: false,
                    size_field, exact_size: false,
                    id,
                }
            }
            Fr::SourceCompressed(k) => {
                Framing::Source {
                    cuts: crate::rsm::even_cuts(payload_len, *k),
                    compressed: true,
                    size_field, exact_size: false,
                    id,
                }
            }
            Fr::SourceExact(k, z) => {
                Framing::Source {
                    cuts: crate::rsm::even_cuts(payload_len, *k),
                    compressed: *z,
                    size_field,
                    exact_size: true,
                    id,
                }
            }
            Fr::GoldEven(k) => {
                Framing::Gold {
                    cuts: crate::rsm::even_cuts(payload_len, *k),
                    id,
                }
            }
            Fr::GoldAt(c) => {
                Framing::Gold {
                    cuts: vec![(*c).min(payload_len.saturating_sub(1)).max(1)],
                    id,
                }
            }
        }
    }
}

fn base(engine: EngineCfg, bound: usize) -> Case {
    Case {
        label: String::new(),
        engine,
        edf: if engine == EngineCfg::GoldObsolete { None } else { Some(0xF1) },
        type_bytes: if engine == EngineCfg::GoldObsolete { (b'D', b'L') } else { (b'd', b'l') },
        framing: [Fr::Single, Fr::Single, Fr::Single],
        rounds: [0, 0, 0],
        player_counts: vec![2, 0, 1, 255],
        rule_counts: vec![2, 0, 1, 300],
        bound,
        kind: Kind::Protocol,
        protocol: None,
        delivery: 0,
        bz_level: 9,
    }
}

fn build_cases(tier: Tier) -> Vec<Case> {
    let mut v = Vec::new();
    let dev = if tier.is_thorough() { 2 } else { 1 };
    // A: all 32 EDF flag sets (+ "no EDF byte") x engines, field deviations <= dev
    for e in EngineCfg::ALL {
        if e == EngineCfg::GoldObsolete {
            let mut c = base(e, dev);
            c.label = format!("A {e:?} obsolete-layout dev<={dev}");
            v.push(c);
            continue;
        }
        for m in 0 .. 33u32 {
            let mask = if m == 32 {
                None
            } else {
                let mut b = 0u8;
                for (i, bit) in [0x80u8, 0x10, 0x40, 0x20, 0x01].iter().enumerate() {
                    if m & (1 << i) != 0 {
                        b |= bit;
                    }
                }
                Some(b)
            };
            // Risk of Rain 2's app id only fits the 64-bit game id: keep flag 0x01 in that engine's product
            if e.wide_appid().is_some() && mask.map_or(true, |b| b & 1 == 0) {
                continue;
            }
            let mut c = base(e, dev);
            c.edf = mask;
            c.label = format!("A {e:?} edf={mask:02x?} dev<={}", c.bound);
            v.push(c);
        }
    }
    // B: all server-type x environment bytes (upper and lower case)
    for e in [EngineCfg::App440, EngineCfg::Ship2400, EngineCfg::GoldFalse] {
        for st in [b'd', b'l', b'p', b'D', b'L', b'P'] {
            for en in [b'l', b'w', b'm', b'o', b'L', b'W', b'M', b'O'] {
                let mut c = base(e, 0);
                c.type_bytes = (st, en);
                c.label = format!("B {e:?} type={} env={}", st as char, en as char);
                v.push(c);
            }
        }
    }
    for st in [b'D', b'L', b'P'] {
        for en in [b'L', b'W'] {
            let mut c = base(EngineCfg::GoldObsolete, 0);
            c.type_bytes = (st, en);
            c.label = format!("B GoldObsolete type={} env={}", st as char, en as char);
            v.push(c);
        }
    }
    // C: transport variants, each applied to info / players / rules independently
    for e in EngineCfg::ALL {
        let mut frs: Vec<Fr> = Vec::new();
        if e.gold() {
            for k in [2usize, 3, 4, 7, 15] {
                frs.push(Fr::GoldEven(k));
            }
        } else {
            for k in [2usize, 3, 4] {
                frs.push(Fr::SourceEven(k));
            }
            frs.push(Fr::SourceCompressed(1));
            frs.push(Fr::SourceCompressed(2));
            frs.push(Fr::SourceCompressed(3));
            for k in [2usize, 3, 4] {
                frs.push(Fr::SourceExact(k, false));
            }
            frs.push(Fr::SourceExact(2, true));
            frs.push(Fr::SourceExact(3, true));
        }
        for fr in &frs {
            for which in 0 .. 3 {
                let mut c = base(e, if tier.is_thorough() { 1 } else { 0 });
                c.framing[which] = fr.clone();
                c.label = format!("C {e:?} {}={}", ["info", "players", "rules"][which], fr.tag());
                v.push(c);
            }
            let mut c = base(e, 0);
            c.framing = [fr.clone(), fr.clone(), fr.clone()];
            c.label = format!("C {e:?} all={}", fr.tag());
            v.push(c);
            // "across several" datagrams promises no arrival order: the same answer delivered back to front and with
            // fragment 0 last decodes to the same state (the arrival orders themselves are C08's subject)
            for (d, what) in [(1u8, "reversed"), (2, "fragment 0 last")] {
                let mut c = base(e, 0);
                c.framing = [fr.clone(), fr.clone(), fr.clone()];
                c.delivery = d;
                c.player_counts = vec![2, 255];
                c.rule_counts = vec![2, 300];
                c.label = format!("C {e:?} all={} delivered {what}", fr.tag());
                v.push(c);
            }
            // every other Source app speaking protocol 7 (old servers, The Ship among them) keeps the size field
            if !e.gold() && e != EngineCfg::Css240 && matches!(fr, Fr::SourceEven(3) | Fr::SourceCompressed(2)) {
                for which in 1 .. 3 {
                    let mut c = base(e, 0);
                    c.protocol = Some(7);
                    c.framing[which] = fr.clone();
                    c.label = format!("C {e:?} protocol=7 (size field present) {}={}", ["info", "players", "rules"][which], fr.tag());
                    v.push(c);
                }
            }
            // Counter-Strike: Source servers speaking protocol 7 send split packets without the size field
            if e == EngineCfg::Css240 {
                for which in 1 .. 3 {
                    let mut c = base(e, 0);
                    c.protocol = Some(7);
                    c.framing[which] = fr.clone();
                    c.label = format!("C {e:?} protocol=7 (no size field) {}={}", ["info", "players", "rules"][which], fr.tag());
                    v.push(c);
                }
            }
        }
        // k = 2 at every boundary of each payload (the payloads of the default state are < 200 bytes)
        let step = if tier.is_thorough() { 1 } else { 3 };
        for which in 0 .. 3 {
            let mut at = 1usize;
            while at < 200 {
                let mut c = base(e, 0);
                c.player_counts = vec![2];
                c.rule_counts = vec![2];
                c.framing[which] = if e.gold() { Fr::GoldAt(at) } else { Fr::SourceAt(at) };
                c.label = format!("C {e:?} {} split2@{at}", ["info", "players", "rules"][which]);
                v.push(c);
                at += step;
            }
        }
        // many rules forcing many fragments
        let mut c = base(e, 0);
        c.rule_counts = vec![300];
        c.player_counts = vec![255];
        c.framing = [
            Fr::Single,
            if e.gold() { Fr::GoldEven(6) } else { Fr::SourceEven(6) },
            if e.gold() { Fr::GoldEven(12) } else { Fr::SourceEven(12) },
        ];
        c.label = format!("C {e:?} 255 players in 6, 300 rules in 12 fragments");
        v.push(c);
        // a compressed reply longer than one bzip2 block (block size 100 kB: 20000 rules are about 170 kB): a multi-block stream
        if !e.gold() && (tier.is_thorough() || e == EngineCfg::App440) {
            let mut c = base(e, 0);
            c.rule_counts = vec![20_000];
            c.player_counts = vec![2];
            c.framing = [Fr::Single, Fr::Single, Fr::SourceCompressed(64)];
            c.bz_level = 1;
            c.label = format!("C {e:?} 20000 rules, bzip2 with 100 kB blocks (multi-block stream) in 64 fragments");
            v.push(c);
        }
        if tier.is_thorough() && !e.gold() {
            let mut c = base(e, 0);
            c.rule_counts = vec![65_535];
            c.player_counts = vec![255];
            c.framing = [
                Fr::Single,
                Fr::Single,
                Fr::SourceEven(255),
            ];
            c.label = format!("C {e:?} 65535 rules");
            v.push(c);
        }
    }
    // D: challenge rounds 0..3 per request
    for e in EngineCfg::ALL {
        for r0 in 0 .. 4 {
            for r1 in 0 .. 4 {
                for r2 in 0 .. 4 {
                    if !tier.is_thorough() && [r0, r1, r2].iter().filter(|r| **r != 0).count() > 1 && (r0, r1, r2) != (1, 1, 1) && (r0, r1, r2) != (3, 3, 3)
                    {
                        continue;
                    }
                    let mut c = base(e, 0);
                    c.rounds = [r0, r1, r2];
                    c.label = format!("D {e:?} challenge rounds {r0}/{r1}/{r2}");
                    v.push(c);
                }
            }
        }
    }
    // E: macro-generated per-game modules carry the same values
    for (name, e) in [
        ("teamfortress2", EngineCfg::App440),
        ("css", EngineCfg::Css240),
        ("counterstrike", EngineCfg::GoldFalse),
        ("ror2", EngineCfg::Ror2),
        // a game whose dedicated servers report another app id than the game itself: both are this game
        ("ohd", EngineCfg::OhdMain),
        ("ohd", EngineCfg::OhdDedicated),
    ] {
        if matches!(e, EngineCfg::OhdMain | EngineCfg::OhdDedicated) {
            // (also through the protocol-level entry point, with the app-id check on)
            let mut c = base(e, dev);
            c.label = format!("E valve::query with Engine::new_with_dedicated(736590, 950900), app-id check on, server reporting {} dev<={dev}", e.wide_appid().unwrap());
            v.push(c);
        }
        let mut c = base(e, dev);
        c.kind = Kind::Wrapper(name);
        c.label = format!("E games::{name}::query dev<={dev}{}", if name == "ohd" { format!(" (server reporting app id {})", e.wide_appid().unwrap()) } else { String::new() });
        v.push(c);
        // the per-game modules must also get the transport right (each names its engine itself): split replies, and for
        // Counter-Strike: Source the protocol-7 form without the size field
        for which in 1 .. 3 {
            for proto in [None, Some(7u8)] {
                if proto.is_some() && e != EngineCfg::Css240 {
                    continue;
                }
                let fr = if e.gold() { Fr::GoldEven(3) } else { Fr::SourceEven(3) };
                let mut c = base(e, 0);
                c.kind = Kind::Wrapper(name);
                c.protocol = proto;
                c.framing[which] = fr.clone();
                c.label = format!("E games::{name}::query {}={}{}", ["info", "players", "rules"][which], fr.tag(), if proto.is_some() { " protocol=7 (no size field)" } else { "" });
                v.push(c);
            }
        }
    }
    v
}

static QUICK: OnceLock<Vec<Case>> = OnceLock::new();
static THOROUGH: OnceLock<Vec<Case>> = OnceLock::new();

fn cases(tier: Tier) -> &'static Vec<Case> {
    match tier {
        Tier::Quick => QUICK.get_or_init(|| build_cases(Tier::Quick)),
        Tier::Thorough => THOROUGH.get_or_init(|| build_cases(Tier::Thorough)),
    }
}

pub struct C02;

impl Prop for C02 {
    fn id(&self) -> &'static str { "C02" }
    fn n_cases(&self, tier: Tier) -> usize { cases(tier).len() }
    fn case_label(&self, tier: Tier, idx: usize) -> String { cases(tier)[idx].label.clone() }
    fn rule(&self) -> String {
        "case = (engine setting, EDF flag set, type bytes, framing of info/players/rules, challenge rounds, entry point); \
         within a case every server state reachable from the default state by <= bound field deviations over the boundary \
         alphabets is generated (state fields are recorded choice points), the real valve::query / games::<g>::query is run \
         against the reference server through the virtual network (loss-free; in order, and for the split framings also back to \
         front and with fragment 0 last), and the result must equal the state (also for an engine with a dedicated-server app id, \
         app-id check on, against servers reporting either id; and a 170 kB reply compressed into a multi-block bzip2 stream). \
         distinct_nontrivial = distinct (outcome class, wire-log shape) pairs of executions that received at least one datagram"
            .into()
    }
    fn assumptions(&self) -> Vec<String> {
        vec![
            "reference server model follows the Valve developer wiki 'Server queries' (DESIGN Appendix A)".into(),
            "strings are UTF-8 without NUL; NaN durations excluded; rule keys distinct; no rule named 'Test' for app 632360".into(),
            "The Ship per-player deaths/money follow each player (implementation's layout; unasserted in the wiki)".into(),
        ]
    }
    fn run_case(&self, tier: Tier, idx: usize, ctx: &mut Ctx) {
        let case = cases(tier)[idx].clone();
        let engine = case.engine.engine();
        let obsolete = case.engine == EngineCfg::GoldObsolete;
        let mut kinds: Vec<String> = case
            .framing
            .iter()
            .map(|f| f.tag().trim_end_matches(|c: char| c.is_ascii_digit()).to_string())
            .filter(|t| t != "single")
            .collect();
        kinds.sort();
        kinds.dedup();
        if kinds.is_empty() {
            kinds.push("single".into());
        }
        let tag = format!("{:?}:{}", case.engine.layout(), kinds.join("+"));
        explore(
            ctx,
            &ExploreCfg::bound(case.bound),
            |prefix| {
                let mut ch = Chooser::new(prefix);
                let state = gen_state(
                    &mut ch,
                    case.engine.layout(),
                    case.edf,
                    case.engine.appid(),
                    case.type_bytes,
                    &case.player_counts,
                    &case.rule_counts,
                );
                let mut state = state;
                if let Some(p) = case.protocol {
                    state.info.protocol = p;
                }
                // the generator's default 64-bit game id names app 440: it has to name the same app as the 16-bit field (for
                // Risk of Rain 2 the app id is only expressible there)
                if let Some(e) = state.info.edf.as_mut() {
                    if e.game_id == Some(440) {
                        e.game_id = Some(case.engine.wide_appid().unwrap_or(case.engine.appid() as u64));
                    }
                }
                if let Err(e) = self_check(&state, obsolete) {
                    panic!("reference model self-check failed: {e}");
                }
                // the client learns the protocol version from info; CS:S (app 240) with protocol 7 has no size field
                let no_size = case.engine == EngineCfg::Css240 && state.info.protocol == 7;
                let lens = [
                    info_body(&state.info, obsolete).len(),
                    players_body(&state.players).len(),
                    rules_body(&state.rules).len(),
                ];
                // a real server never emits a datagram above the MTU: replies that do not fit are split
                let auto = |fr: &Fr, len: usize| -> Fr {
                    if *fr == Fr::Single && len > 1200 {
                        let k = len.div_ceil(1200).max(2);
                        if case.engine.gold() {
                            Fr::GoldEven(k.min(15))
                        } else {
                            Fr::SourceEven(k.min(255))
                        }
                    } else {
                        fr.clone()
                    }
                };
                crate::rsm::valve::set_bz_level(case.bz_level);
                let transport = Transport {
                    info: auto(&case.framing[0], lens[0]).resolve(lens[0], true, 0x0000_1234),
                    // (a GoldSrc answer id is any 32-bit number: the players answer uses one with the top bit set, which means
                    // "compressed" in the Source format only)
                    players: auto(&case.framing[1], lens[1]).resolve(lens[1], !no_size, if case.engine.gold() { 0xF000_0777 } else { 0x0000_0777 }),
                    rules: auto(&case.framing[2], lens[2]).resolve(lens[2], !no_size, 0x7fff_ffff),
                    rounds: case.rounds,
                    obsolete_info: obsolete,
                    delivery: case.delivery,
                    ..Default::default()
                };
                let server = ValveServer::new(state.clone(), transport);
                let a = addr();
                match &case.kind {
                    Kind::Protocol => {
                        let settings = GatheringSettings {
                            players: GatherToggle::Enforce,
                            rules: GatherToggle::Enforce,
                            check_app_id: matches!(case.engine, EngineCfg::OhdMain | EngineCfg::OhdDedicated),
                        };
                        let x = run_query(Box::new(server), Box::new(Faithful), ch, || {
                            valve::query(&a, engine, Some(settings), None)
                        });
                        (x.map_ok(Resp::Valve), state)
                    }
                    Kind::Wrapper(name) => {
                        let name = *name;
                        let x = run_query(Box::new(server), Box::new(Faithful), ch, || {
                            let ip = IP4;
                            let r = match name {
                                "teamfortress2" => gamedig::games::teamfortress2::query(&ip, Some(PORT)),
                                "css" => gamedig::games::css::query(&ip, Some(PORT)),
                                "counterstrike" => gamedig::games::counterstrike::query(&ip, Some(PORT)),
                                "ror2" => gamedig::games::ror2::query(&ip, Some(PORT)),
                                "ohd" => gamedig::games::ohd::query(&ip, Some(PORT)),
                                _ => unreachable!(),
                            }?;
                            Ok(Resp::Game(r))
                        });
                        (x, state)
                    }
                }
            },
            |ctx, x, state| {
                match &case.kind {
                    Kind::Protocol => {
                        let exp_valve = expected(state, obsolete, &engine, true, true);
                        // (the cases that switch the app-id check on: a state deviated to another app is refused)
                        if matches!(case.engine, EngineCfg::OhdMain | EngineCfg::OhdDedicated) {
                            let accepted = match engine {
                                Engine::Source(Some((a, d))) => exp_valve.info.appid == a || Some(exp_valve.info.appid) == d,
                                _ => true,
                            };
                            if !accepted {
                                if !matches!(x.outcome.err_kind(), Some(gamedig::GDErrorKind::BadGame)) {
                                    ctx.violation("appid-check:foreign-id-not-refused", &x.choices(), "app-id check on: a server of another app was not refused with BadGame", x.outcome.describe_json(), "Err(BadGame)", crate::vnet::render_log(&x.log));
                                }
                                return;
                            }
                        }
                        let exp = Resp::Valve(exp_valve);
                        if check_equal(ctx, x, &exp, &tag) {
                            ctx.sample(serde_json::json!({"case": case.label, "choices": x.choices(), "datagrams": x.log.len(), "name": state.info.name}));
                        }
                    }
                    Kind::Wrapper(name) => {
                        // wrappers use default gather settings with app-id check: only states the wrapper accepts
                        let exp_valve = expected(state, obsolete, &engine, true, true);
                        let accepted = match engine {
                            Engine::Source(Some((a, d))) => exp_valve.info.appid == a || Some(exp_valve.info.appid) == d,
                            _ => true,
                        };
                        if !accepted && x.choices().iter().all(|c| *c == 0) {
                            // the default state of a per-game case must be one the module accepts, or the case explores nothing
                            ctx.violation("wrapper-rejects-its-own-default-server", &[], format!("{}: the default server state reports app id {} which the module rejects", case.label, exp_valve.info.appid), "", "", vec![]);
                        }
                        if !accepted {
                            if !matches!(x.outcome.err_kind(), Some(gamedig::GDErrorKind::BadGame)) {
                                ctx.violation(
                                    format!("wrapper-appid:{name}"),
                                    &x.choices(),
                                    "per-game wrapper did not reject a foreign app id with BadGame",
                                    x.outcome.describe_json(),
                                    "Err(BadGame)",
                                    crate::vnet::render_log(&x.log),
                                );
                            }
                            return;
                        }
                        // (the reference value is built here, field by field, not by the conversion under test)
                        ctx.note("wrapper_executions_with_an_accepted_app_id", 1);
                        let exp = Resp::Game(reference_game_response(&exp_valve));
                        check_equal(ctx, x, &exp, &format!("wrapper:{name}"));
                    }
                }
            },
        );
    }
}

/// Either shape, so that both entry-point kinds share the explorer call.
#[derive(Debug, PartialEq, serde::Serialize)]
pub enum Resp {
    Valve(valve::Response),
    Game(valve::game::Response),
}



/// The per-game response for a protocol-level response: every field under the name the per-game type gives it, every
/// player and every rule kept.
pub fn reference_game_response(r: &valve::Response) -> valve::game::Response {
    let e = r.info.extra_data.as_ref();
    valve::game::Response {
        protocol: r.info.protocol_version,
        name: r.info.name.clone(),
        map: r.info.map.clone(),
        game: r.info.game_mode.clone(),
        appid: r.info.appid,
        players_online: r.info.players_online,
        players_details: r
            .players
            .clone()
            .unwrap_or_default()
            .iter()
            .map(|p| valve::game::Player { name: p.name.clone(), score: p.score, duration: p.duration })
            .collect(),
        players_maximum: r.info.players_maximum,
        players_bots: r.info.players_bots,
        server_type: r.info.server_type.clone(),
        has_password: r.info.has_password,
        vac_secured: r.info.vac_secured,
        version: r.info.game_version.clone(),
        port: e.and_then(|e| e.port),
        steam_id: e.and_then(|e| e.steam_id),
        tv_port: e.and_then(|e| e.tv_port),
        tv_name: e.and_then(|e| e.tv_name.clone()),
        keywords: e.and_then(|e| e.keywords.clone()),
        rules: r.rules.clone().unwrap_or_default(),
    }
}
