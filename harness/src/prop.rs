//! The interface every property check implements.

use crate::report::{Ctx, Tier};

pub trait Prop: Sync {
    fn id(&self) -> &'static str;
    /// evidence level (EVIDENCE.schema.json enum)
    fn level(&self) -> &'static str { "model_checking" }
    fn n_cases(&self, tier: Tier) -> usize;
    fn case_label(&self, tier: Tier, idx: usize) -> String;
    /// Explore one case completely, reporting into `ctx`.
    fn run_case(&self, tier: Tier, idx: usize, ctx: &mut Ctx);
    /// How cases are enumerated and what makes one distinct / non-trivial.
    fn rule(&self) -> String;
    fn assumptions(&self) -> Vec<String> { Vec::new() }
    /// Number of worker subprocesses.
    fn shards(&self, _tier: Tier) -> usize { 16 }
    /// Seconds without a breadcrumb change before a worker is declared hung.
    fn stall_secs(&self) -> u64 { 120 }
    /// Whether the run enumerated its (stated, finite) space completely when
    /// no cap was hit.
    fn exhaustive_when_uncapped(&self) -> bool { true }
    /// Extra keys for the evidence coverage object.
    fn extra_coverage(&self, _tier: Tier) -> serde_json::Value { serde_json::json!({}) }
}
