//! Stateless, deviation-bounded depth-first exploration (DESIGN §2.1).

use crate::report::Ctx;
use crate::run::{Exec, Outcome};

pub struct ExploreCfg {
    /// maximum number of non-default choices on one execution
    pub bound: usize,
    /// hard cap on executions for this exploration (reported if hit)
    pub max_execs: u64,
}

impl ExploreCfg {
    pub fn bound(b: usize) -> Self {
        Self {
            bound: b,
            max_execs: u64::MAX,
        }
    }
    pub fn all() -> Self {
        Self {
            bound: usize::MAX,
            max_execs: u64::MAX,
        }
    }
}

/// Explore every choice sequence with at most `cfg.bound` deviations.
/// `run(prefix)` executes the system replaying `prefix` and then taking the
/// default at every later point; `check` is the oracle for one execution.
pub fn explore<T, A>(
    ctx: &mut Ctx,
    cfg: &ExploreCfg,
    mut run: impl FnMut(&[u32]) -> (Exec<T>, A),
    mut check: impl FnMut(&mut Ctx, &Exec<T>, &A),
) {
    if let Some(choices) = ctx.replay.clone() {
        let (x, aux) = run(&choices);
        ctx.account(&x, choices.len());
        if let Outcome::Diverged(d) = &x.outcome {
            ctx.violation("MACHINERY:divergence", &choices, d.clone(), "", "", vec![]);
            return;
        }
        check(ctx, &x, &aux);
        return;
    }
    let mut stack: Vec<Vec<u32>> = vec![Vec::new()];
    let mut execs: u64 = 0;
    while let Some(prefix) = stack.pop() {
        if ctx.skip.contains(&(ctx.case, prefix.clone())) {
            ctx.note("skipped_known_process_death", 1);
            continue;
        }
        if execs >= cfg.max_execs {
            let cap = format!("max_execs={} in case {}", cfg.max_execs, ctx.case_label);
            if !ctx.counters.caps_hit.contains(&cap) {
                ctx.counters.caps_hit.push(cap);
            }
            break;
        }
        execs += 1;
        crate::crumb::mark(ctx.case, &prefix);
        let (x, aux) = run(&prefix);
        ctx.account(&x, prefix.len());
        if let Outcome::Diverged(d) = &x.outcome {
            ctx.violation("MACHINERY:divergence", &prefix, d.clone(), "", "", vec![]);
            continue;
        }
        ctx.prune_children = false;
        check(ctx, &x, &aux);
        if ctx.prune_children {
            ctx.prune_children = false;
            ctx.note("subtrees_below_a_violating_execution_not_expanded", 1);
            continue;
        }
        // expand
        let mut devs = x.points[.. prefix.len().min(x.points.len())]
            .iter()
            .filter(|p| p.chosen != 0)
            .count();
        let start = stack.len();
        for i in prefix.len() .. x.points.len() {
            let p = x.points[i];
            if devs < cfg.bound {
                for alt in 1 .. p.menu {
                    let mut child: Vec<u32> = x.points[.. i].iter().map(|q| q.chosen).collect();
                    child.push(alt);
                    stack.push(child);
                }
            }
            if p.chosen != 0 {
                devs += 1;
            }
        }
        // DFS visits the most recently pushed first; reverse so that the
        // smallest alternative at the earliest point comes first
        stack[start ..].reverse();
    }
    // the bound that was explored completely for this case (the merge keeps the minimum over cases)
    if !ctx.counters.caps_hit.iter().any(|c| c.contains(&ctx.case_label)) {
        let b = if cfg.bound == usize::MAX { 1_000_000 } else { cfg.bound as u64 };
        let e = ctx.counters.bound_completed.entry("deviation_bound_completed_min_over_cases".to_string()).or_insert(b);
        *e = (*e).min(b);
    }
    crate::crumb::done();
}
