//! Every public query entry point as a type-erased target: a seed server (the
//! reference model in a fully populated, multi-datagram state) plus a call
//! returning the result as canonical JSON.

use crate::props::c02::EngineCfg;
use crate::props::common::{to_json, IP4, PORT};
use crate::rsm::gamespy::*;
use crate::rsm::master::*;
use crate::rsm::minecraft::*;
use crate::rsm::misc::*;
use crate::rsm::quake::*;
use crate::rsm::unreal2::*;
use crate::rsm::valve as rv;
use crate::vnet::{Chooser, Responder};
use gamedig::protocols::types::{GatherToggle, TimeoutSettings};
use gamedig::protocols::{gamespy, quake, unreal2, valve};
use gamedig::GDResult;
use serde_json::Value;
use std::net::{Ipv4Addr, SocketAddr};
use std::sync::Arc;

include!(concat!(env!("OUT_DIR"), "/wrappers_gen.rs"));
include!(concat!(env!("OUT_DIR"), "/magic_keys_gen.rs"));

#[derive(Clone, Copy, Debug, PartialEq, Eq, Hash)]
pub enum Family {
    Valve(EngineCfg),
    Gs1,
    Gs2,
    Gs3,
    Quake(Ver),
    Unreal2,
    Java,
    Bedrock,
    Legacy(LegacyKind),
    McAuto,
    McLegacyAuto,
    Ffow,
    Savage2,
    Jc2m,
    Mindustry,
    Master,
}

pub type ServerFn = Arc<dyn Fn() -> Box<dyn Responder> + Send + Sync>;
pub type CallFn = Arc<dyn Fn(Option<TimeoutSettings>) -> GDResult<Value> + Send + Sync>;

#[derive(Clone)]
pub struct Target {
    pub name: String,
    pub family: Family,
    pub server: ServerFn,
    pub call: CallFn,
    /// the call hands the timeout settings (retry count) to the library
    pub honours_timeout: bool,
    /// gather toggles (players, rules) for Valve / Unreal 2 targets
    pub toggles: Option<(GatherToggle, GatherToggle)>,
}

pub const TOGGLES: [GatherToggle; 3] = [GatherToggle::Skip, GatherToggle::Try, GatherToggle::Enforce];

fn addr() -> SocketAddr { SocketAddr::new(IP4, PORT) }

// ---------------------------------------------------------------------------
// seed servers

pub fn valve_seed(e: EngineCfg) -> rv::State {
    let mut s = rv::seed_state(e.layout(), e.appid());
    if let Some(edf) = s.info.edf.as_mut() {
        // the 64-bit game id carries the same app id as the 16-bit field
        edf.game_id = Some(e.appid() as u64);
    }
    if e == EngineCfg::Ror2 {
        s.info.edf.as_mut().unwrap().game_id = Some(632_360);
    }
    if e == EngineCfg::GoldObsolete {
        s.info.edf = None;
        s.info.server_type = b'D';
        s.info.env = b'L';
        s.info.gold_mod = None;
    }
    s
}

pub fn valve_seed_transport(e: EngineCfg, s: &rv::State) -> rv::Transport {
    let obsolete = e == EngineCfg::GoldObsolete;
    let pl = rv::players_body(&s.players).len();
    let rl = rv::rules_body(&s.rules).len();
    let split = |len: usize, id: u32| {
        if e.gold() {
            rv::Framing::Gold {
                cuts: vec![len / 2],
                id,
            }
        } else {
            rv::Framing::Source {
                cuts: vec![len / 2],
                compressed: false,
                size_field: true, exact_size: false,
                id,
            }
        }
    };
    rv::Transport {
        info: rv::Framing::Single,
        players: split(pl, 0x21),
        rules: split(rl, 0x22),
        rounds: [1, 1, 0],
        obsolete_info: obsolete,
        ..Default::default()
    }
}

pub fn valve_server(e: EngineCfg) -> Box<dyn Responder> {
    let s = valve_seed(e);
    let t = valve_seed_transport(e, &s);
    Box::new(rv::ValveServer::new(s, t))
}

pub fn gs1_seed() -> Gs1State { gen_gs1(&mut Chooser::new(&[]), &[2]) }
pub fn gs2_seed() -> Gs2State { gen_gs2(&mut Chooser::new(&[]), &[2], &[2]) }
pub fn gs3_seed() -> Gs3State { gen_gs3(&mut Chooser::new(&[]), &[2], &[2]) }
pub fn quake_seed(v: Ver) -> QState { gen_quake(&mut Chooser::new(&[]), v, &[2], false) }
pub fn u2_seed() -> UState {
    let mut s = gen_u2(&mut Chooser::new(&[]), &[4], &[4]);
    s.num_players = s.players.len() as u32;
    s
}
pub fn java_seed() -> JavaState { gen_java(&mut Chooser::new(&[])) }
pub fn bedrock_seed() -> BedrockState { gen_bedrock(&mut Chooser::new(&[])) }
pub fn legacy_seed(k: LegacyKind) -> LegacyState { gen_legacy(&mut Chooser::new(&[]), k) }
pub fn jc2m_seed() -> Jc2mState { gen_jc2m(&mut Chooser::new(&[]), &[2]) }

pub fn gs1_server() -> Box<dyn Responder> {
    let s = gs1_seed();
    let n = s.pairs().len();
    Box::new(Gs1Server {
        state: s,
        cut_at: vec![n / 2],
    })
}
pub fn gs3_server() -> Box<dyn Responder> {
    let s = gs3_seed();
    let first = s.first_data_atom();
    let n = s.n_atoms();
    Box::new(Gs3Server::new(s, vec![first + (n - first) / 2]))
}
pub fn u2_server() -> Box<dyn Responder> {
    Box::new(U2Server {
        state: u2_seed(),
        rule_packets: 2,
        player_packets: 2,
    })
}
pub fn jc2m_server() -> Box<dyn Responder> {
    let mut dummy = gs3_seed();
    dummy.challenge = "9182736".into();
    let mut srv = Gs3Server::new(dummy, vec![]);
    srv.payload = [0xFF, 0xFF, 0xFF, 0x02];
    srv.body_override = Some(vec![jc2m_seed().packet()]);
    Box::new(srv)
}
pub fn mc_server(bits: u8) -> Box<dyn Responder> {
    let mut m = McServer::none();
    if bits & 1 != 0 {
        m.java = Some(java_seed());
    }
    if bits & 2 != 0 {
        m.bedrock = Some(bedrock_seed());
    }
    if bits & 4 != 0 {
        m.v1_6 = Some(legacy_seed(LegacyKind::V1_6));
    }
    if bits & 8 != 0 {
        m.v1_4 = Some(legacy_seed(LegacyKind::V1_4));
    }
    if bits & 16 != 0 {
        m.vb1_8 = Some(legacy_seed(LegacyKind::VB1_8));
    }
    Box::new(m)
}
pub fn master_pages() -> Vec<Vec<Entry>> {
    vec![
        vec![(Ipv4Addr::new(10, 0, 0, 1), 27015), (Ipv4Addr::new(10, 0, 0, 2), 27016)],
        vec![(Ipv4Addr::new(10, 0, 0, 3), 1), (Ipv4Addr::new(255, 255, 255, 255), 65535), TERMINATOR],
    ]
}

pub fn server_for(f: Family) -> ServerFn {
    match f {
        Family::Valve(e) => Arc::new(move || valve_server(e)),
        Family::Gs1 => Arc::new(gs1_server),
        Family::Gs2 => Arc::new(|| Box::new(Gs2Server { state: gs2_seed() })),
        Family::Gs3 => Arc::new(gs3_server),
        Family::Quake(v) => Arc::new(move || Box::new(QuakeServer { state: quake_seed(v) })),
        Family::Unreal2 => Arc::new(u2_server),
        Family::Java => Arc::new(|| mc_server(1)),
        Family::Bedrock => Arc::new(|| mc_server(2)),
        Family::Legacy(LegacyKind::V1_6) => Arc::new(|| mc_server(4)),
        Family::Legacy(LegacyKind::V1_4) => Arc::new(|| mc_server(8)),
        Family::Legacy(LegacyKind::VB1_8) => Arc::new(|| mc_server(16)),
        // the auto-detecting entry points are most interesting when only the last variant answers
        Family::McAuto => Arc::new(|| mc_server(16)),
        Family::McLegacyAuto => Arc::new(|| mc_server(16)),
        Family::Ffow => Arc::new(|| Box::new(FfowServer::new(gen_ffow(&mut Chooser::new(&[])), 2, 1))),
        Family::Savage2 => Arc::new(|| Box::new(Savage2Server { state: gen_savage2(&mut Chooser::new(&[])) })),
        Family::Jc2m => Arc::new(jc2m_server),
        Family::Mindustry => Arc::new(|| Box::new(MindustryServer { state: gen_mindustry(&mut Chooser::new(&[])) })),
        Family::Master => Arc::new(|| Box::new(MasterServer::new(master_pages()))),
    }
}

fn tgt(name: impl Into<String>, family: Family, honours_timeout: bool, call: CallFn) -> Target {
    Target {
        name: name.into(),
        family,
        server: server_for(family),
        call,
        honours_timeout,
        toggles: None,
    }
}

fn j<T: serde::Serialize>(r: GDResult<T>) -> GDResult<Value> { r.map(|t| to_json(&t)) }

/// Protocol-level and single-game entry points.
pub fn protocol_targets() -> Vec<Target> {
    let mut v = Vec::new();
    for e in EngineCfg::ALL {
        for p in TOGGLES {
            for r in TOGGLES {
                let engine = e.engine();
                let gs = valve::GatheringSettings {
                    players: p,
                    rules: r,
                    check_app_id: true,
                };
                let mut t = tgt(
                    format!("valve::query {e:?} players={p:?} rules={r:?}"),
                    Family::Valve(e),
                    true,
                    Arc::new(move |ts| j(valve::query(&addr(), engine, Some(gs), ts))),
                );
                t.toggles = Some((p, r));
                v.push(t);
            }
        }
    }
    v.push(tgt("gamespy::one::query", Family::Gs1, true, Arc::new(|ts| j(gamespy::one::query(&addr(), ts)))));
    v.push(tgt("gamespy::one::query_vars", Family::Gs1, true, Arc::new(|ts| j(gamespy::one::query_vars(&addr(), ts)))));
    v.push(tgt("gamespy::two::query", Family::Gs2, true, Arc::new(|ts| j(gamespy::two::query(&addr(), ts)))));
    v.push(tgt("gamespy::three::query", Family::Gs3, true, Arc::new(|ts| j(gamespy::three::query(&addr(), ts)))));
    v.push(tgt("gamespy::three::query_vars", Family::Gs3, true, Arc::new(|ts| j(gamespy::three::query_vars(&addr(), ts)))));
    v.push(tgt("quake::one::query", Family::Quake(Ver::One), true, Arc::new(|ts| j(quake::one::query(&addr(), ts)))));
    v.push(tgt("quake::two::query", Family::Quake(Ver::Two), true, Arc::new(|ts| j(quake::two::query(&addr(), ts)))));
    v.push(tgt("quake::three::query", Family::Quake(Ver::Three), true, Arc::new(|ts| j(quake::three::query(&addr(), ts)))));
    for p in TOGGLES {
        for r in TOGGLES {
            let gs = unreal2::GatheringSettings {
                players: p,
                mutators_and_rules: r,
            };
            let mut t = tgt(
                format!("unreal2::query players={p:?} rules={r:?}"),
                Family::Unreal2,
                true,
                Arc::new(move |ts| j(unreal2::query(&addr(), &gs, ts))),
            );
            t.toggles = Some((p, r));
            v.push(t);
        }
    }
    use gamedig::games::minecraft as mc;
    v.push(tgt("minecraft::protocol::query_java", Family::Java, true, Arc::new(|ts| j(mc::protocol::query_java(&addr(), ts, None)))));
    v.push(tgt("minecraft::protocol::query_bedrock", Family::Bedrock, true, Arc::new(|ts| j(mc::protocol::query_bedrock(&addr(), ts)))));
    for (k, g) in [
        (LegacyKind::V1_6, mc::LegacyGroup::V1_6),
        (LegacyKind::V1_4, mc::LegacyGroup::V1_4),
        (LegacyKind::VB1_8, mc::LegacyGroup::VB1_8),
    ] {
        v.push(tgt(
            format!("minecraft::protocol::query_legacy_specific {k:?}"),
            Family::Legacy(k),
            true,
            Arc::new(move |ts| j(mc::protocol::query_legacy_specific(g, &addr(), ts))),
        ));
    }
    v.push(tgt("minecraft::protocol::query_legacy", Family::McLegacyAuto, true, Arc::new(|ts| j(mc::protocol::query_legacy(&addr(), ts)))));
    v.push(tgt("minecraft::protocol::query (auto)", Family::McAuto, true, Arc::new(|ts| j(mc::protocol::query(&addr(), ts, None)))));
    v.push(tgt("minecraft::query (auto)", Family::McAuto, false, Arc::new(|_| j(mc::query(&IP4, Some(PORT))))));
    use gamedig::games::{battalion1944, ffow, jc2m, mindustry, savage2, theship};
    v.push(tgt("ffow::query_with_timeout", Family::Ffow, true, Arc::new(|ts| j(ffow::query_with_timeout(&IP4, Some(PORT), ts)))));
    v.push(tgt("savage2::query_with_timeout", Family::Savage2, true, Arc::new(|ts| j(savage2::query_with_timeout(&IP4, Some(PORT), ts)))));
    v.push(tgt("jc2m::query_with_timeout", Family::Jc2m, true, Arc::new(|ts| j(jc2m::query_with_timeout(&IP4, Some(PORT), ts)))));
    v.push(tgt("mindustry::query", Family::Mindustry, true, Arc::new(|ts| j(mindustry::query(&IP4, Some(PORT), &ts)))));
    v.push(tgt(
        "theship::query_with_timeout",
        Family::Valve(EngineCfg::Ship2400),
        true,
        Arc::new(|ts| j(theship::query_with_timeout(&IP4, Some(PORT), ts))),
    ));
    {
        // Battalion 1944: app 489 940 via the game id
        let mut t = tgt(
            "battalion1944::query",
            Family::Valve(EngineCfg::App440),
            false,
            Arc::new(|_| j(battalion1944::query(&IP4, Some(PORT)))),
        );
        t.server = Arc::new(|| {
            let mut s = valve_seed(EngineCfg::App440);
            s.info.edf.as_mut().unwrap().game_id = Some(489_940);
            s.rules.push(("bat_max_players_i".into(), "16".into()));
            s.rules.push(("bat_player_count_s".into(), "5".into()));
            s.rules.push(("bat_name_s".into(), "override".into()));
            let t = valve_seed_transport(EngineCfg::App440, &s);
            Box::new(rv::ValveServer::new(s, t))
        });
        v.push(t);
    }
    use gamedig::valve_master_server::{Filter, Region, SearchFilters, ValveMasterServer};
    v.push(tgt(
        "ValveMasterServer::query_specific",
        Family::Master,
        false,
        Arc::new(|_| {
            let mut m = ValveMasterServer::new(&addr())?;
            let f = SearchFilters::new().insert(Filter::RunsAppID(440));
            m.query_specific(Region::Europe, &Some(f), "0.0.0.0", 0)
                .map(|l| to_json(&l))
        }),
    ));
    v.push(tgt(
        "ValveMasterServer::query",
        Family::Master,
        false,
        Arc::new(|_| {
            let mut m = ValveMasterServer::new(&addr())?;
            m.query(Region::Others, None).map(|l| to_json(&l))
        }),
    ));
    v
}

pub fn family_of_game(game: &gamedig::Game) -> Option<Family> {
    use gamedig::protocols::gamespy::GameSpyVersion;
    use gamedig::protocols::quake::QuakeVersion;
    use gamedig::protocols::types::{ProprietaryProtocol as PP, Protocol};
    use gamedig::protocols::valve::Engine;
    Some(match &game.protocol {
        Protocol::Valve(engine) => {
            Family::Valve(match engine {
                Engine::GoldSrc(true) => EngineCfg::GoldObsolete,
                Engine::GoldSrc(false) => EngineCfg::GoldFalse,
                Engine::Source(None) => EngineCfg::SourceNone,
                Engine::Source(Some((240, _))) => EngineCfg::Css240,
                Engine::Source(Some((2400, _))) => EngineCfg::Ship2400,
                Engine::Source(Some((632_360, _))) => EngineCfg::Ror2,
                Engine::Source(Some(_)) => EngineCfg::App440,
            })
        }
        Protocol::Gamespy(GameSpyVersion::One) => Family::Gs1,
        Protocol::Gamespy(GameSpyVersion::Two) => Family::Gs2,
        Protocol::Gamespy(GameSpyVersion::Three) => Family::Gs3,
        Protocol::Quake(QuakeVersion::One) => Family::Quake(Ver::One),
        Protocol::Quake(QuakeVersion::Two) => Family::Quake(Ver::Two),
        Protocol::Quake(QuakeVersion::Three) => Family::Quake(Ver::Three),
        Protocol::Unreal2 => Family::Unreal2,
        Protocol::PROPRIETARY(p) => {
            use gamedig::games::minecraft::{LegacyGroup, Server};
            match p {
                PP::TheShip => Family::Valve(EngineCfg::Ship2400),
                PP::Minecraft(None) => Family::McAuto,
                PP::Minecraft(Some(Server::Java)) => Family::Java,
                PP::Minecraft(Some(Server::Bedrock)) => Family::Bedrock,
                PP::Minecraft(Some(Server::Legacy(LegacyGroup::V1_6))) => Family::Legacy(LegacyKind::V1_6),
                PP::Minecraft(Some(Server::Legacy(LegacyGroup::V1_4))) => Family::Legacy(LegacyKind::V1_4),
                PP::Minecraft(Some(Server::Legacy(LegacyGroup::VB1_8))) => Family::Legacy(LegacyKind::VB1_8),
                PP::FFOW => Family::Ffow,
                PP::JC2M => Family::Jc2m,
                PP::Savage2 => Family::Savage2,
                PP::Mindustry => Family::Mindustry,
                PP::Eco => return None,
            }
        }
    })
}

/// A server that reports the app id the definition expects (so that the
/// app-id check passes): for Source engines with a specific id.
pub fn server_for_game(game: &gamedig::Game) -> Option<ServerFn> {
    use gamedig::protocols::types::Protocol;
    use gamedig::protocols::valve::Engine;
    let fam = family_of_game(game)?;
    if let (Protocol::Valve(Engine::Source(Some((appid, _)))), Family::Valve(e)) = (&game.protocol, fam) {
        return Some(valve_server_with_appid(e, *appid));
    }
    Some(server_for(fam))
}

/// The seed Valve server of engine `e` reporting `appid` (in the 16-bit field when it fits, and in the game id).
pub fn valve_server_with_appid(e: EngineCfg, appid: u32) -> ServerFn {
    {
        {
        return (Arc::new(move || {
            let mut s = valve_seed(e);
            if appid <= 0xffff {
                s.info.appid = appid as u16;
                s.info.edf.as_mut().unwrap().game_id = Some(appid as u64);
            } else {
                s.info.appid = 0;
                s.info.edf.as_mut().unwrap().game_id = Some(appid as u64);
            }
            let t = valve_seed_transport(e, &s);
            Box::new(rv::ValveServer::new(s, t))
        }));
        }
    }
}

/// The generic definition-driven dispatch, once per entry of GAMES.
pub fn dispatch_targets() -> Vec<Target> {
    let mut ids: Vec<&&str> = gamedig::GAMES.keys().collect();
    ids.sort();
    let mut v = Vec::new();
    for id in ids {
        let game = gamedig::GAMES.get(*id).unwrap();
        let Some(fam) = family_of_game(game) else { continue };
        let id2: &'static str = id;
        let mut t = tgt(
            format!("generic dispatch '{id2}'"),
            fam,
            true,
            Arc::new(move |ts| {
                let game = gamedig::GAMES.get(id2).unwrap();
                gamedig::query_with_timeout_and_extra_settings(game, &IP4, Some(PORT), ts, None).map(|r| {
                    serde_json::json!({"original": to_json(&r.as_original()), "common": to_json(&r.as_json())})
                })
            }),
        );
        t.server = server_for_game(game).unwrap();
        v.push(t);
    }
    v
}

/// Every macro-generated per-game module (`games::<id>::query`).
pub fn wrapper_targets() -> Vec<Target> {
    let mut v = Vec::new();
    for (name, fam, f) in WRAPPERS {
        // find the definition with the same module name if there is one, else derive the family from the macro family
        let game = gamedig::GAMES.get(*name);
        let family = match (game.and_then(family_of_game), *fam) {
            (Some(f), _) => f,
            (None, "valve") => Family::Valve(EngineCfg::App440),
            (None, "gamespy") => Family::Gs1,
            (None, "quake") => Family::Quake(Ver::Three),
            (None, _) => Family::Unreal2,
        };
        let f = *f;
        let mut t = tgt(
            format!("games::{name}::query"),
            family,
            false,
            Arc::new(move |_| f(&IP4, Some(PORT))),
        );
        if let Some(g) = game {
            if let Some(s) = server_for_game(g) {
                t.server = s;
            }
        }
        v.push(t);
    }
    v
}
