//! Per-run accounting: counters, distinct-behaviour set, samples, violations.

use crate::run::Exec;
use serde::{Deserialize, Serialize};
use std::collections::hash_map::DefaultHasher;
use std::collections::{BTreeMap, HashSet};
use std::hash::{Hash, Hasher};

#[derive(Clone, Copy, Debug, PartialEq, Eq, Serialize, Deserialize)]
#[serde(rename_all = "lowercase")]
pub enum Tier {
    Quick,
    Thorough,
}

impl Tier {
    pub fn name(self) -> &'static str {
        match self {
            Tier::Quick => "quick",
            Tier::Thorough => "thorough",
        }
    }
    pub fn is_thorough(self) -> bool { self == Tier::Thorough }
}

#[derive(Clone, Debug, Serialize, Deserialize)]
pub struct Violation {
    pub property: String,
    /// semantic class of the failure (what fails, not where in the search) —
    /// used for grouping and for matching known findings
    pub class: String,
    pub case: usize,
    pub case_label: String,
    pub choices: Vec<u32>,
    pub detail: String,
    pub observed: String,
    pub expected: String,
    pub wire: Vec<String>,
}

#[derive(Clone, Debug, Default, Serialize, Deserialize)]
pub struct Counters {
    pub evaluations: u64,
    pub states: u64,
    pub transitions: u64,
    pub max_depth: u64,
    pub max_menu: u64,
    pub cases: u64,
    pub caps_hit: Vec<String>,
    pub bound_completed: BTreeMap<String, u64>,
    pub notes: BTreeMap<String, u64>,
}

impl Counters {
    pub fn merge(&mut self, o: &Counters) {
        self.evaluations += o.evaluations;
        self.states += o.states;
        self.transitions += o.transitions;
        self.max_depth = self.max_depth.max(o.max_depth);
        self.max_menu = self.max_menu.max(o.max_menu);
        self.cases += o.cases;
        for c in &o.caps_hit {
            if !self.caps_hit.contains(c) {
                self.caps_hit.push(c.clone());
            }
        }
        for (k, v) in &o.bound_completed {
            let e = self.bound_completed.entry(k.clone()).or_insert(*v);
            *e = (*e).min(*v);
        }
        for (k, v) in &o.notes {
            *self.notes.entry(k.clone()).or_insert(0) += v;
        }
    }
}

pub struct Ctx {
    pub property: String,
    pub tier: Tier,
    pub seed: u64,
    pub case: usize,
    pub case_label: String,
    pub counters: Counters,
    pub distinct: HashSet<u64>,
    pub samples: Vec<serde_json::Value>,
    pub violations: Vec<Violation>,
    /// executions known to kill the process (from earlier attempts): skip them
    pub skip: HashSet<(usize, Vec<u32>)>,
    /// when set, run exactly this choice list once (replay mode)
    pub replay: Option<Vec<u32>>,
    pub max_samples: usize,
    /// per-class violation counts (to avoid storing thousands of duplicates)
    pub class_counts: BTreeMap<String, u64>,
    pub max_per_class: u64,
    /// set by an oracle that has just reported a violation whose continuations need not be explored (e.g. a bound on the
    /// number of attempts is already exceeded): the explorer does not expand the children of that execution
    pub prune_children: bool,
}

impl Ctx {
    pub fn new(property: &str, tier: Tier, seed: u64) -> Self {
        Self {
            property: property.to_string(),
            tier,
            seed,
            case: 0,
            case_label: String::new(),
            counters: Counters::default(),
            distinct: HashSet::new(),
            samples: Vec::new(),
            violations: Vec::new(),
            skip: HashSet::new(),
            replay: None,
            max_samples: 6,
            class_counts: BTreeMap::new(),
            max_per_class: 3,
            prune_children: false,
        }
    }

    pub fn note(&mut self, key: &str, n: u64) { *self.counters.notes.entry(key.to_string()).or_insert(0) += n; }

    pub fn distinct_key<H: Hash>(&mut self, h: &H) {
        let mut s = DefaultHasher::new();
        h.hash(&mut s);
        self.distinct.insert(s.finish());
    }

    pub fn sample(&mut self, v: serde_json::Value) {
        if self.samples.len() < self.max_samples {
            self.samples.push(v);
        }
    }

    /// Account for one complete execution.
    pub fn account<T>(&mut self, x: &Exec<T>, prefix_len: usize) {
        self.counters.evaluations += 1;
        let n = x.points.len();
        self.counters.states += (n.saturating_sub(prefix_len) + 1) as u64;
        self.counters.transitions += x.ops as u64;
        self.counters.max_depth = self.counters.max_depth.max(n as u64);
        for p in &x.points {
            self.counters.max_menu = self.counters.max_menu.max(p.menu as u64);
        }
        if x.reached_receive() {
            let key = (x.outcome.class(), x.shape());
            self.distinct_key(&key);
        }
    }

    pub fn violation(
        &mut self,
        class: impl Into<String>,
        choices: &[u32],
        detail: impl Into<String>,
        observed: impl Into<String>,
        expected: impl Into<String>,
        wire: Vec<String>,
    ) {
        let class = class.into();
        let n = self.class_counts.entry(class.clone()).or_insert(0);
        *n += 1;
        if *n > self.max_per_class {
            return;
        }
        self.violations.push(Violation {
            property: self.property.clone(),
            class,
            case: self.case,
            case_label: self.case_label.clone(),
            choices: choices.to_vec(),
            detail: detail.into(),
            observed: observed.into(),
            expected: expected.into(),
            wire,
        });
    }
}

#[derive(Serialize, Deserialize, Default)]
pub struct ShardResult {
    pub counters: Counters,
    pub samples: Vec<serde_json::Value>,
    pub violations: Vec<Violation>,
    pub class_counts: BTreeMap<String, u64>,
    pub distinct: Vec<u64>,
    pub finished: bool,
    pub next_case: usize,
}
