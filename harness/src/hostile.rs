//! The hostile-server policy of C01 / C13: at every receive the environment
//! may deliver, instead of the well-formed next datagram, any of a finite,
//! canonically ordered menu of malformed ones (DESIGN §5 C01).

use crate::targets::Family;
use crate::vnet::{Pick, Policy, RecvPoint};
use std::net::SocketAddr;

pub const SUBST: [u8; 10] = [0x00, 0x01, 0x02, 0x0A, 0x20, 0x5C, 0x7F, 0x80, 0xFE, 0xFF];
pub const TAIL_ALPHABET: [u8; 8] = [0x00, 0x01, 0x0A, 0x5C, 0x80, 0xC3, 0xFE, 0xFF];
/// a valid two-byte UTF-8 character, written over two bytes at every offset (byte-indexed string slicing)
pub const UTF8_PAIR: [u8; 2] = [0xC3, 0xA9];
/// a valid two-byte UTF-8 character that is WHITE SPACE (NO-BREAK SPACE): code that splits text at char::is_whitespace and
/// steps on by one byte lands inside it
pub const UTF8_BLANK: [u8; 2] = [0xC2, 0xA0];
pub const TEXT_NUMBERS: [&str; 9] = ["", "0", "1", "-1", "256", "65536", "4294967296", "99999999999999999999", "x"];
/// every decimal number of the datagram replaced by the same value at once (fields that only bound each other)
pub const ALL_TEXT_NUMBERS: [&str; 4] = ["65536", "1000000", "4294967296", "99999999999999999999"];
pub const MAX_DATAGRAM: usize = 65_507;

#[derive(Clone, Copy, Debug, PartialEq, Eq)]
pub enum MenuKind {
    /// truncations, substitutions, text numbers, tails, extremes, oversize, timeout
    Full,
    /// truncations + extremes + oversize + timeout
    Reduced,
    /// extremes + oversize + timeout + a boundary subset of truncations/substitutions
    Second,
}

pub const WIDE: [&[u8]; 8] = [
    &[0xFF, 0xFF],
    &[0x7F, 0xFF],
    &[0xFF, 0x7F],
    &[0xFF, 0xFF, 0xFF, 0xFF],
    &[0x7F, 0xFF, 0xFF, 0xFF],
    &[0xFF, 0xFF, 0xFF, 0x7F],
    &[0x80, 0x00, 0x00, 0x00],
    &[0x00, 0x00, 0x00, 0x80],
];

pub struct Hostile {
    pub family: Family,
    /// also overwrite 2 and 4 bytes at every offset with u16 / u32 extremes in both byte orders (C13)
    pub wide: bool,
    pub first: MenuKind,
    /// menu offered once one deviation has been taken (bound 2); None = no further deviations
    pub after: Option<MenuKind>,
    pub tail_len: usize,
    /// offer "connection refused" at TCP opens
    pub refuse_tcp: bool,
    /// restrict the menu to field-layout extremes (C13)
    pub extremes_only: bool,
}

/// Number of tails of length 1..=n over the 7-symbol alphabet.
fn n_tails(n: usize) -> usize { (1 ..= n).map(|k| 8usize.pow(k as u32)).sum() }

fn tail(mut idx: usize, max_len: usize) -> Vec<u8> {
    for len in 1 ..= max_len {
        let count = 8usize.pow(len as u32);
        if idx < count {
            let mut v = Vec::with_capacity(len);
            for _ in 0 .. len {
                v.push(TAIL_ALPHABET[idx % 8]);
                idx /= 8;
            }
            return v;
        }
        idx -= count;
    }
    unreachable!()
}

/// Maximal runs of ASCII digits in `d` (start, end).
fn digit_runs(d: &[u8]) -> Vec<(usize, usize)> {
    let mut v = Vec::new();
    let mut i = 0;
    while i < d.len() {
        if d[i].is_ascii_digit() {
            let s = i;
            while i < d.len() && d[i].is_ascii_digit() {
                i += 1;
            }
            v.push((s, i));
        } else {
            i += 1;
        }
    }
    v
}

fn is_text_family(f: Family) -> bool {
    matches!(
        f,
        Family::Gs1 | Family::Gs2 | Family::Gs3 | Family::Quake(_) | Family::Jc2m | Family::Bedrock | Family::Java
    )
}

/// Prefix lengths after which small-scope tails are appended.
fn tail_prefixes(f: Family, d: &[u8]) -> Vec<usize> {
    let mut v = vec![0usize];
    let h = match f {
        Family::Valve(_) | Family::Ffow => 5,
        Family::Gs1 => 1,
        Family::Gs2 => 5,
        Family::Gs3 | Family::Jc2m => 5,
        Family::Quake(ver) => 4 + ver.header().len(),
        Family::Unreal2 => 5,
        Family::Java => 1,
        Family::Bedrock => 35,
        Family::Legacy(_) | Family::McAuto | Family::McLegacyAuto => 3,
        Family::Savage2 => 12,
        Family::Mindustry => 0,
        Family::Master => 6,
    };
    if h > 0 && h <= d.len() {
        v.push(h);
    }
    // split packets: after the split header
    if d.first() == Some(&0xFE) && d.len() > 12 {
        v.push(9);
        v.push(12);
    }
    // GameSpy 3 data packets: after "splitnum\0" + id + type
    if matches!(f, Family::Gs3 | Family::Jc2m) && d.len() > 16 && d[0] == 0 {
        v.push(16);
    }
    v.sort();
    v.dedup();
    v
}

thread_local! {
    static EXT_CACHE: std::cell::RefCell<std::collections::HashMap<(Family, Vec<u8>), std::rc::Rc<Vec<Vec<u8>>>>> =
        std::cell::RefCell::new(std::collections::HashMap::new());
}

/// Cached `extremes_uncached`.
pub fn extremes(f: Family, d: &[u8]) -> std::rc::Rc<Vec<Vec<u8>>> {
    let armed = crate::alloc::pause();
    let r = EXT_CACHE.with(|c| {
        let mut c = c.borrow_mut();
        if let Some(v) = c.get(&(f, d.to_vec())) {
            return v.clone();
        }
        if c.len() > 4096 {
            c.clear();
        }
        let v = std::rc::Rc::new(extremes_uncached(f, d));
        c.insert((f, d.to_vec()), v.clone());
        v
    });
    crate::alloc::resume(armed);
    r
}

/// Format-specific structural extremes (built from the well-formed datagram `d`).
pub fn extremes_uncached(f: Family, d: &[u8]) -> Vec<Vec<u8>> {
    let mut v: Vec<Vec<u8>> = Vec::new();
    let with = |prefix: &[u8], rest: &[u8]| -> Vec<u8> {
        let mut x = prefix.to_vec();
        x.extend_from_slice(rest);
        x
    };
    // generic: every u8 / u16 / u32 extreme at the first 16 offsets is covered by substitutions;
    // here: whole-structure extremes
    match f {
        Family::Valve(_) | Family::Ffow => {
            let body: &[u8] = if d.first() == Some(&0xFE) { &[0xFF, 0xFF, 0xFF, 0xFF, 0x49, 0x11, b'a', 0] } else { d };
            for (total, number) in [(0u8, 0u8), (1, 0), (1, 1), (2, 5), (255, 0), (255, 254), (255, 255)] {
                // Source split header
                let mut x = vec![0xFE, 0xFF, 0xFF, 0xFF, 0x01, 0, 0, 0, total, number, 0xE0, 0x04];
                x.extend_from_slice(body);
                v.push(x);
                // compressed bit with absurd size / crc
                let mut x = vec![0xFE, 0xFF, 0xFF, 0xFF, 0x01, 0, 0, 0x80, total, number, 0xE0, 0x04];
                x.extend_from_slice(&[0xFF, 0xFF, 0xFF, 0xFF, 0xDE, 0xAD, 0xBE, 0xEF]);
                x.extend_from_slice(body);
                v.push(x);
                let mut x = vec![0xFE, 0xFF, 0xFF, 0xFF, 0x01, 0, 0, 0x80, total, number, 0xE0, 0x04];
                x.extend_from_slice(&[0, 0, 0, 0, 0, 0, 0, 0]);
                x.extend_from_slice(b"BZh9");
                v.push(x);
                // GoldSrc split header (number << 4 | total)
                let mut x = vec![0xFE, 0xFF, 0xFF, 0xFF, 0x01, 0, 0, 0, (number << 4) | (total & 0x0f)];
                x.extend_from_slice(body);
                v.push(x);
            }
            // a VALID bzip2 stream (of a 25-byte info reply) with absurd / wrong declared sizes
            const BZ: [u8; 68] = [
                0x42, 0x5a, 0x68, 0x39, 0x31, 0x41, 0x59, 0x26, 0x53, 0x59, 0x69, 0x79, 0x23, 0x25, 0x00, 0x00, 0x0c, 0xe5, 0x88, 0xf0, 0x00, 0x20,
                0x40, 0x00, 0x20, 0x05, 0x87, 0x01, 0x00, 0x00, 0x40, 0x00, 0x00, 0xa0, 0x00, 0x22, 0x9e, 0xa7, 0xa8, 0x19, 0x3d, 0x35, 0x0a, 0x60,
                0x00, 0x21, 0xfa, 0x52, 0xa6, 0xa2, 0x69, 0x12, 0x2c, 0xc3, 0x38, 0xab, 0x8f, 0x8b, 0xb9, 0x22, 0x9c, 0x28, 0x48, 0x34, 0xbc, 0x91,
                0x92, 0x80,
            ];
            for size in [25u32, 0, 24, 26, 0x0100_0001, 0x0400_0001, 0x7fff_ffff, 0xffff_ffff] {
                let mut x = vec![0xFE, 0xFF, 0xFF, 0xFF, 0x01, 0, 0, 0x80, 1, 0, 0xE0, 0x04];
                x.extend_from_slice(&size.to_le_bytes());
                x.extend_from_slice(&0x232c_0337u32.to_le_bytes());
                x.extend_from_slice(&BZ);
                v.push(x);
            }
            // split header only / cut inside the header
            for n in 4 .. 12 {
                v.push(vec![0xFE, 0xFF, 0xFF, 0xFF, 1, 0, 0, 0x80, 2, 0, 0xE0, 0x04][.. n].to_vec());
            }
            // challenge with fewer / more than four bytes, endless challenges are covered by X(2)
            for n in 0 .. 7 {
                v.push(with(&[0xFF, 0xFF, 0xFF, 0xFF, 0x41], &[0x11; 8][.. n]));
            }
            // counts above the payload
            v.push(vec![0xFF, 0xFF, 0xFF, 0xFF, 0x44, 0xFF]);
            v.push(vec![0xFF, 0xFF, 0xFF, 0xFF, 0x44, 0xFF, 0, b'a', 0, 1, 0, 0, 0, 0, 0, 0, 0]);
            v.push(vec![0xFF, 0xFF, 0xFF, 0xFF, 0x45, 0xFF, 0xFF]);
            v.push(vec![0xFF, 0xFF, 0xFF, 0xFF, 0x45, 0xFF, 0xFF, b'k', 0, b'v', 0]);
            v.push(vec![0xFF, 0xFF, 0xFF, 0xFF, 0x45, 0x01, 0x00, b'k']);
            // info with every EDF flag and nothing behind it
            let mut x = vec![0xFF, 0xFF, 0xFF, 0xFF, 0x49, 0x11];
            x.extend_from_slice(b"n\0m\0f\0g\0");
            x.extend_from_slice(&[0xFF, 0xFF, 1, 2, 0, b'd', b'l', 0, 1, 1, 2, 3]);
            x.extend_from_slice(b"v\0");
            x.push(0xFF);
            v.push(x.clone());
            x.extend_from_slice(&[0x87, 0x69]);
            v.push(x);
            // obsolete layout with mod flag and nothing behind
            let mut x = vec![0xFF, 0xFF, 0xFF, 0xFF, 0x6D];
            x.extend_from_slice(b"a\0n\0m\0f\0g\0");
            x.extend_from_slice(&[1, 2, 47, b'D', b'L', 0, 1]);
            v.push(x);
        }
        Family::Gs1 => {
            for s in [
                "",
                "\\",
                "\\\\",
                "\\final\\",
                "\\final\\\\queryid\\1.1",
                "\\queryid\\1.1.1\\final\\",
                "\\queryid\\.\\final\\",
                "\\queryid\\99999999999999999999.1\\final\\",
                "\\queryid\\1.99999999999999999999\\final\\",
                "\\queryid\\-1.-1\\final\\",
                "\\a",
                "a",
                "\u{e9}\\hostname\\x\\final\\",
                "\u{e9}",
                "\u{6771}\u{4eac}",
                "\\hostname\\h\\mapname\\m\\gametype\\g\\gamever\\v\\password\\0\\maxplayers\\4294967295\\final\\\\queryid\\1.1",
                "\\hostname\\h\\mapname\\m\\gametype\\g\\gamever\\v\\password\\0\\maxplayers\\1\\player_4294967295\\x\\final\\\\queryid\\1.1",
                "\\hostname\\h\\mapname\\m\\gametype\\g\\gamever\\v\\password\\0\\maxplayers\\1\\player_18446744073709551615\\x\\final\\\\queryid\\1.1",
                "\\hostname\\h\\mapname\\m\\gametype\\g\\gamever\\v\\password\\0\\maxplayers\\1\\player_70000000\\x\\frags_70000000\\1\\ping_70000000\\1\\final\\\\queryid\\1.1",
                "\\hostname\\h\\mapname\\m\\gametype\\g\\gamever\\v\\password\\0\\maxplayers\\1\\ping_0\\x\\final\\\\queryid\\1.1",
                "\\hostname\\h\\mapname\\m\\gametype\\g\\gamever\\v\\password\\maybe\\maxplayers\\1\\final\\\\queryid\\1.1",
                "\\hostname\\h\\mapname\\m\\gametype\\g\\gamever\\v\\password\\0\\maxplayers\\1\\tournament\\perhaps\\final\\\\queryid\\1.1",
            ] {
                v.push(s.as_bytes().to_vec());
            }
        }
        Family::Gs2 => {
            let h = [0u8, 0, 0, 0, 1];
            v.push(with(&h, &[]));
            v.push(with(&h, &[0]));
            v.push(with(&h, &[0, 0]));
            v.push(with(&h, &[0, 0, 0xFF]));
            v.push(with(&h, b"hostname\0h\0mapname\0m\0password\0" as &[u8]));
            v.push(with(&h, b"hostname\0h\0mapname\0m\0password\x000\0maxplayers\x001\0\0\0\xffplayer_\0\0" as &[u8]));
            v.push(with(&h, b"hostname\0h\0mapname\0m\0password\x000\0maxplayers\x001\0\0\0\x01player_\0score_\0ping_\0team_\0\0a\x0099999999\0x\0-1\0\0\xff" as &[u8]));
            v.push(with(&h, b"hostname\0h\0mapname\0m\0password\x000\0maxplayers\x0099999999999\0numplayers\0x\0\0\0\0\0\0" as &[u8]));
            v.push(with(&h, b"\0x\0\0x\0\0x\0" as &[u8]));
            v.push(with(&[0, 0, 0, 0, 2], &[0]));
            v.push(with(&[1, 0, 0, 0, 1], &[0]));
            // the largest datagram UDP can carry: 255 announced rows and as many one-letter column names as fit, no cells at all
            // (what the client may reserve for it is bounded by how much of the datagram it asks for)
            for rows in [0xFFu8, 0x01] {
                let mut x = with(&h, b"hostname\0h\0mapname\0m\0password\x000\0maxplayers\x001\0\0\0" as &[u8]);
                x.push(rows);
                while x.len() + 2 <= MAX_DATAGRAM {
                    x.extend_from_slice(b"a\0");
                }
                v.push(x);
            }
        }
        Family::Gs3 | Family::Jc2m => {
            let h = [0u8, 0, 0, 0, 1];
            for id in [0u8, 1, 0x7F, 0x80, 0x81, 0xFF] {
                let mut x = h.to_vec();
                x.extend_from_slice(b"splitnum\0");
                x.push(id);
                x.push(0);
                v.push(x.clone());
                x.extend_from_slice(b"hostname\0h\0\0\x01player_\0\xff\x00a\0\0");
                v.push(x);
            }
            v.push(with(&h, b"splitnum" as &[u8]));
            v.push(with(&h, b"splitnam\0\x80\0" as &[u8]));
            v.push(with(&h, b"splitnum\0" as &[u8]));
            v.push(with(&h, b"splitnum\0\x80" as &[u8]));
            // handshake answers
            for s in ["", "x", "-", "99999999999", "-2147483649", "2147483648", "1.5", " 1"] {
                let mut x = vec![9u8, 0, 0, 0, 1];
                x.extend_from_slice(s.as_bytes());
                x.push(0);
                v.push(x.clone());
                x.pop();
                v.push(x);
            }
            v.push(vec![9u8, 0, 0, 0, 2, b'1', 0]);
            v.push(vec![8u8, 0, 0, 0, 1, b'1', 0]);
            // JC2-MP player block extremes
            let mut x = h.to_vec();
            x.extend_from_slice(b"splitnum\0\x80\0hostname\0h\0version\0v\0description\0d\0password\x000\0maxplayers\x001\0\0");
            let base = x.clone();
            x.extend_from_slice(&[0xFF, 0xFF]);
            v.push(x.clone());
            x.extend_from_slice(b"name\0id\0");
            v.push(x.clone());
            x.push(1);
            v.push(x);
            v.push(base);
        }
        Family::Quake(ver) => {
            let mut h = vec![0xFF, 0xFF, 0xFF, 0xFF];
            h.extend_from_slice(ver.header());
            v.push(h.clone());
            for s in [
                "\n",
                "\\",
                "\\\n",
                "\\hostname\\h\\mapname\\m\\maxclients\\1\n\"\n",
                "\\hostname\\h\\mapname\\m\\maxclients\\1\n1 2 \"\n",
                "\\hostname\\h\\mapname\\m\\maxclients\\1\n1 2 3 4 \" \" 5 6\n",
                "\\hostname\\h\\mapname\\m\\maxclients\\1\n\n\n",
                "\\hostname\\h\\mapname\\m\\maxclients\\1\n \n",
                "\\hostname\\h\\mapname\\m\\maxclients\\1\n1\n",
                "\\hostname\\h\\mapname\\m\\maxclients\\1\n1 2 3 4 5 6 7 8 9\n",
                "\\hostname\\h\\mapname\\m\\maxclients\\1\n-1 -1 \"a\"\n",
                "\\hostname\\h\\mapname\\m\\maxclients\\1\n99999999999 1 \"a\"\n",
                "\\hostname\\h\\mapname\\m\\maxclients\\256\n",
                "\\hostname\\h\\mapname\\m\\maxclients\\-1\n",
                "\\hostname\\h\\mapname\\m\n",
                "\\hostname\\h\\mapname\\m\\maxclients\\1\n1 2 \"a\"\n\0",
                "\\hostname\\h\\mapname\\m\\maxclients\\1\n1 2 \"a\"\0",
                "\\hostname\\h\\mapname\\m\\maxclients\\1\n\0",
                "\\hostname\\h\\mapname\\m\\maxclients\\1\0",
                "\\hostname\\h\\mapname\\m\\maxclients\\1",
            ] {
                v.push(with(&h, s.as_bytes()));
            }
            let mut many = h.clone();
            many.extend_from_slice(b"\\hostname\\h\\mapname\\m\\maxclients\\1\n");
            for i in 0 .. 300 {
                many.extend_from_slice(format!("{i} 1 \"p\"\n").as_bytes());
            }
            v.push(many);
        }
        Family::Unreal2 => {
            for kind in [0u8, 1, 2, 3, 0xFF] {
                let h = [0x80u8, 0, 0, 0, kind];
                v.push(h.to_vec());
                // length prefix past the end, both encodings
                for lb in [0x01u8, 0x02, 0x1B, 0x7F, 0x80, 0x81, 0x82, 0xFF] {
                    v.push(with(&h, &[1, 0, 0, 0, lb]));
                    v.push(with(&h, &[1, 0, 0, 0, lb, b'a']));
                    v.push(with(&h, &[1, 0, 0, 0, lb, 1]));
                    v.push(with(&h, &[1, 0, 0, 0, lb, b'a', 0]));
                    v.push(with(&h, &[1, 0, 0, 0, lb, 0x1b]));
                    v.push(with(&h, &[lb]));
                    v.push(with(&h, &[lb, b'a', 0, lb]));
                    // UCS-2 with an unpaired surrogate
                    v.push(with(&h, &[1, 0, 0, 0, 0x82, 0x00, 0xD8, 0, 0]));
                }
            }
        }
        Family::Java | Family::McAuto => {
            let frame = |body: &[u8]| -> Vec<u8> {
                let mut x = crate::rsm::minecraft::varint(body.len() as i32);
                x.extend_from_slice(body);
                x
            };
            for vi in [
                vec![0xFFu8, 0xFF, 0xFF, 0xFF, 0x0F],
                vec![0xFF, 0xFF, 0xFF, 0xFF, 0x07],
                vec![0xFF, 0xFF, 0xFF, 0xFF, 0x7F],
                vec![0xFF, 0xFF, 0xFF, 0xFF, 0xFF],
                vec![0x80, 0x80, 0x80, 0x80, 0x08],
                vec![0x80],
                vec![0x80, 0x80],
            ] {
                // as the packet length
                v.push(with(&vi, &[0, 2, b'{', b'}']));
                // as the packet id
                v.push(with(&[10], &vi));
                // as the string length
                v.push(with(&[10, 0], &vi));
                v.push(with(&[10, 0], &with(&vi, b"{}")));
            }
            for js in [
                "",
                "{}",
                "[]",
                "null",
                "{\"version\":{\"name\":1,\"protocol\":1},\"players\":{\"max\":1,\"online\":1}}",
                "{\"version\":{\"name\":\"x\",\"protocol\":1e99},\"players\":{\"max\":1,\"online\":1}}",
                "{\"version\":{\"name\":\"x\",\"protocol\":-9223372036854775808},\"players\":{\"max\":1,\"online\":1}}",
                "{\"version\":{\"name\":\"x\",\"protocol\":1},\"players\":{\"max\":18446744073709551615,\"online\":-1}}",
                "{\"version\":{\"name\":\"x\",\"protocol\":1},\"players\":{\"max\":1,\"online\":1,\"sample\":{}}}",
                "{\"version\":{\"name\":\"x\",\"protocol\":1},\"players\":{\"max\":1,\"online\":1,\"sample\":[1]}}",
                "{\"version\":{\"name\":\"x\",\"protocol\":1},\"players\":{\"max\":1,\"online\":1,\"sample\":[{\"name\":1}]}}",
                "{\"version\":\"x\",\"players\":[]}",
                // well-formed statuses announcing huge counts (a count is a number, not a reason to allocate)
                "{\"version\":{\"name\":\"x\",\"protocol\":1},\"players\":{\"max\":4294967295,\"online\":4294967295,\"sample\":[]}}",
                "{\"version\":{\"name\":\"x\",\"protocol\":1},\"players\":{\"max\":20,\"online\":2147483647,\"sample\":[]}}",
                "{\"version\":{\"name\":\"x\",\"protocol\":1},\"players\":{\"max\":20,\"online\":100000000,\"sample\":[{\"name\":\"a\",\"id\":\"b\"}]}}",
                "{\"version\":{\"name\":\"x\",\"protocol\":2147483647},\"players\":{\"max\":3000000,\"online\":3000000}}",
                "\u{feff}{}",
            ] {
                let mut body = vec![0u8];
                body.extend(crate::rsm::minecraft::varint_string(js));
                v.push(frame(&body));
            }
            // declared string length larger / smaller than present
            v.push(frame(&[0, 100, b'{', b'}']));
            v.push(frame(&[0, 1, b'{', b'}']));
            v.push(frame(&[0, 2, 0xFF, 0xFE]));
            v.push(vec![]);
        }
        Family::Bedrock => {
            if d.len() >= 35 {
                let h = &d[.. 33];
                for s in ["", ";", ";;;;;", "a;b;c;d;e;f", "a;b;c;d;-1;1", "a;b;c;d;1;99999999999", "a;b;c;d;1;1;i;m;Unknown", "a;b;c;d;1;1;i;m;Survival;;;;;;;;;;"] {
                    for delta in [0i32, 1, -1] {
                        let mut x = h.to_vec();
                        let l = (s.len() as i32 + delta).max(0) as u16;
                        x.extend_from_slice(&l.to_be_bytes());
                        x.extend_from_slice(s.as_bytes());
                        v.push(x);
                    }
                }
                let mut x = h.to_vec();
                x.extend_from_slice(&[0xFF, 0xFF]);
                v.push(x);
                v.push(h.to_vec());
                v.push(d[.. 34].to_vec());
            }
        }
        Family::Legacy(_) | Family::McLegacyAuto => {
            let enc = |s: &str, declared: Option<u16>| -> Vec<u8> {
                let units: Vec<u16> = s.encode_utf16().collect();
                let mut x = vec![0xFF];
                x.extend_from_slice(&declared.unwrap_or(units.len() as u16).to_be_bytes());
                for u in units {
                    x.extend_from_slice(&u.to_be_bytes());
                }
                x
            };
            for s in [
                "",
                "§",
                "§§",
                "a§b§c",
                "a§1§",
                "a§-1§1",
                "a§99999999999§1",
                "a§1§2§3",
                "§1",
                "§1\0",
                "§1\01\0v\0m\01",
                "§1\0x\0v\0m\01\02",
                "§1\01\0v\0m\0-1\02",
                "§1\01\0v\0m\01\099999999999",
                "§1\01\0v\0m\01\02\03",
            ] {
                v.push(enc(s, None));
                v.push(enc(s, Some(0)));
                v.push(enc(s, Some(0x7FFF)));
                v.push(enc(s, Some(0x8000)));
                v.push(enc(s, Some(0xFFFF)));
                let mut odd = enc(s, None);
                odd.push(0x00);
                v.push(odd);
            }
            v.push(vec![0xFF]);
            v.push(vec![0xFF, 0x00]);
            v.push(vec![0xFF, 0x00, 0x01, 0xD8, 0x00]); // unpaired surrogate
            v.push(vec![0xFE, 0x00, 0x00]);
            v.push(vec![]);
        }
        Family::Savage2 => {
            for n in [0usize, 1, 11, 12, 13] {
                v.push(vec![0x41; n]);
            }
        }
        Family::Mindustry => {
            for lb in [0u8, 1, 0x7F, 0x80, 0xFF] {
                v.push(vec![lb]);
                v.push(vec![lb, b'a']);
                v.push(vec![lb, 0xFF, 0xFE]);
                v.push(vec![1, b'h', lb]);
                v.push(vec![1, b'h', 1, b'm', 0, 0, 0, 1, 0, 0, 0, 2, 0, 0, 0, 3, lb]);
                v.push(vec![1, b'h', 1, b'm', 0, 0, 0, 1, 0, 0, 0, 2, 0, 0, 0, 3, 1, b't', lb, 0, 0, 0, 4, lb]);
            }
            v.push(vec![]);
        }
        Family::Master => {
            let h = [0xFFu8, 0xFF, 0xFF, 0xFF, 0x66, 0x0A];
            for n in 0 .. 7 {
                v.push(with(&h, &[1, 2, 3, 4, 5, 6, 7][.. n]));
            }
            // a page that never terminates and repeats its last address
            v.push(with(&h, &[1, 2, 3, 4, 0, 5]));
            v.push(with(&h, &[0, 0, 0, 0, 0, 0, 1, 2, 3, 4, 0, 5]));
            v.push(h[.. 5].to_vec());
            v.push(vec![0xFF, 0xFF, 0xFF, 0xFF, 0x66, 0x0B]);
        }
    }
    v
}

struct Menu<'a> {
    wide: bool,
    f: Family,
    d: Option<&'a [u8]>,
    kind: MenuKind,
    tail_len: usize,
    extremes_only: bool,
}

/// Layout of a menu: counts of each class, in canonical order.
struct Layout {
    trunc: usize,
    subst: usize,
    utf8: usize,
    wide: usize,
    textnum: usize,
    tails: usize,
    extremes: usize,
    oversize: usize,
    timeout: usize,
}

impl Layout {
    fn total(&self) -> usize { 1 + self.trunc + self.subst + self.utf8 + self.wide + self.textnum + self.tails + self.extremes + self.oversize + self.timeout }
}

/// Boundary subset of offsets used for the second deviation.
fn subset_offsets(len: usize) -> Vec<usize> {
    let mut v: Vec<usize> = (0 .. len.min(8)).collect();
    for k in [len / 4, len / 2, 3 * len / 4, len.saturating_sub(2), len.saturating_sub(1)] {
        if k < len && !v.contains(&k) {
            v.push(k);
        }
    }
    v
}

impl<'a> Menu<'a> {
    fn layout(&self) -> Layout {
        let len = self.d.map_or(0, |d| d.len());
        let has = self.d.is_some();
        let ext = extremes(self.f, self.d.unwrap_or(&[])).len();
        if self.extremes_only {
            return Layout {
                trunc: 0,
                subst: 0,
                utf8: 0,
                wide: 0,
                textnum: 0,
                tails: 0,
                extremes: ext,
                oversize: 3,
                timeout: usize::from(has),
            };
        }
        match self.kind {
            MenuKind::Full => {
                Layout {
                    trunc: len,
                    subst: len * SUBST.len(),
                    utf8: 2 * len.saturating_sub(1),
                    wide: if self.wide { len * WIDE.len() } else { 0 },
                    textnum: if has && is_text_family(self.f) {
                        let runs = digit_runs(self.d.unwrap()).len();
                        runs * TEXT_NUMBERS.len() + if runs > 1 { ALL_TEXT_NUMBERS.len() } else { 0 }
                    } else {
                        0
                    },
                    tails: if has { tail_prefixes(self.f, self.d.unwrap()).len() * n_tails(self.tail_len) } else { n_tails(self.tail_len.min(2)) },
                    extremes: ext,
                    oversize: 3,
                    timeout: usize::from(has),
                }
            }
            MenuKind::Reduced => {
                Layout {
                    trunc: len,
                    subst: 0,
                    utf8: 0,
                    wide: 0,
                    textnum: 0,
                    tails: 0,
                    extremes: ext,
                    oversize: 3,
                    timeout: usize::from(has),
                }
            }
            MenuKind::Second => {
                let so = subset_offsets(len).len();
                Layout {
                    trunc: so,
                    subst: so * 3,
                    utf8: 0,
                    wide: if self.wide { so * WIDE.len() } else { 0 },
                    textnum: 0,
                    tails: 0,
                    extremes: ext,
                    oversize: 3,
                    timeout: usize::from(has),
                }
            }
        }
    }

    fn pick(&self, idx: usize) -> Pick {
        if idx == 0 {
            return Pick::Head;
        }
        let l = self.layout();
        let mut i = idx - 1;
        let d = self.d.unwrap_or(&[]);
        let custom = |data: Vec<u8>| Pick::Custom { data, consume: true };
        if i < l.trunc {
            let k = match self.kind {
                MenuKind::Second => subset_offsets(d.len())[i],
                _ => i,
            };
            return custom(d[.. k].to_vec());
        }
        i -= l.trunc;
        if i < l.subst {
            let (off, b) = match self.kind {
                MenuKind::Second => (subset_offsets(d.len())[i / 3], [0x00u8, 0x80, 0xFF][i % 3]),
                _ => (i / SUBST.len(), SUBST[i % SUBST.len()]),
            };
            let mut x = d.to_vec();
            // substituting the byte that is already there would be the default: use its complement instead
            x[off] = if x[off] == b { !b } else { b };
            return custom(x);
        }
        i -= l.subst;
        if i < l.utf8 {
            let mut x = d.to_vec();
            let half = l.utf8 / 2;
            let (at, pair) = if i < half { (i, UTF8_PAIR) } else { (i - half, UTF8_BLANK) };
            x[at] = pair[0];
            x[at + 1] = pair[1];
            return custom(x);
        }
        i -= l.utf8;
        if i < l.wide {
            let off = match self.kind {
                MenuKind::Second => subset_offsets(d.len())[i / WIDE.len()],
                _ => i / WIDE.len(),
            };
            let w = WIDE[i % WIDE.len()];
            let mut x = d.to_vec();
            for (k, b) in w.iter().enumerate() {
                if off + k < x.len() {
                    x[off + k] = *b;
                }
            }
            if x == d {
                x[off] = !x[off];
            }
            return custom(x);
        }
        i -= l.wide;
        if i < l.textnum {
            let runs = digit_runs(d);
            if i >= runs.len() * TEXT_NUMBERS.len() {
                let value = ALL_TEXT_NUMBERS[i - runs.len() * TEXT_NUMBERS.len()].as_bytes();
                let mut x = Vec::new();
                let mut at = 0usize;
                for (s, e) in &runs {
                    x.extend_from_slice(&d[at .. *s]);
                    x.extend_from_slice(value);
                    at = *e;
                }
                x.extend_from_slice(&d[at ..]);
                return custom(x);
            }
            let (s, e) = runs[i / TEXT_NUMBERS.len()];
            let mut x = d[.. s].to_vec();
            x.extend_from_slice(TEXT_NUMBERS[i % TEXT_NUMBERS.len()].as_bytes());
            x.extend_from_slice(&d[e ..]);
            return custom(x);
        }
        i -= l.textnum;
        if i < l.tails {
            if self.d.is_some() {
                let prefixes = tail_prefixes(self.f, d);
                let per = n_tails(self.tail_len);
                let p = prefixes[i / per];
                let mut x = d[.. p].to_vec();
                x.extend(tail(i % per, self.tail_len));
                return custom(x);
            }
            return custom(tail(i, self.tail_len.min(2)));
        }
        i -= l.tails;
        if i < l.extremes {
            return custom(extremes(self.f, d)[i].clone());
        }
        i -= l.extremes;
        if i < l.oversize {
            return custom(match i {
                0 => vec![0x00; MAX_DATAGRAM],
                1 => vec![0xFF; MAX_DATAGRAM],
                _ => {
                    let mut x = d.to_vec();
                    x.resize(MAX_DATAGRAM, 0x41);
                    x
                }
            });
        }
        Pick::Timeout { drop_all: true }
    }
}

impl Hostile {
    fn menu<'a>(&self, pt: &RecvPoint<'a>) -> Option<Menu<'a>> {
        let kind = if pt.deviations == 0 {
            self.first
        } else {
            self.after?
        };
        Some(Menu {
            wide: self.wide,
            f: self.family,
            d: pt.queue.front().map(|v| v.as_slice()),
            kind,
            tail_len: self.tail_len,
            extremes_only: self.extremes_only,
        })
    }
}

impl Policy for Hostile {
    fn recv_menu(&mut self, pt: &RecvPoint) -> usize {
        match self.menu(pt) {
            Some(m) => m.layout().total(),
            None => 1,
        }
    }
    fn recv_pick(&mut self, pt: &RecvPoint, idx: usize) -> Pick {
        match self.menu(pt) {
            Some(m) => m.pick(idx),
            None => Pick::Head,
        }
    }
    fn open_menu(&mut self, tcp: bool, _addr: &SocketAddr, deviations: usize) -> usize {
        if tcp && self.refuse_tcp && (deviations == 0 || self.after.is_some()) {
            2
        } else {
            1
        }
    }
}
