//! Counting global allocator (DESIGN §2.4).
//!
//! Thread-local counters, armed only around the entry-point call. A single
//! request above `REFUSE_ABOVE` while armed is refused (null => the process
//! aborts); before refusing, a breadcrumb is written so that the driver can
//! attribute the abort to the exact execution.

use std::alloc::{GlobalAlloc, Layout, System};
use std::cell::Cell;

pub const REFUSE_ABOVE: usize = 1 << 30; // 1 GiB

#[derive(Clone, Copy, Debug, Default, PartialEq, Eq, serde::Serialize, serde::Deserialize)]
pub struct AllocStats {
    pub live: usize,
    pub peak_live: usize,
    pub largest: usize,
    pub requests: usize,
    pub total: usize,
}

thread_local! {
    static ARMED: Cell<bool> = const { Cell::new(false) };
    static LIVE: Cell<usize> = const { Cell::new(0) };
    static PEAK: Cell<usize> = const { Cell::new(0) };
    static LARGEST: Cell<usize> = const { Cell::new(0) };
    static REQUESTS: Cell<usize> = const { Cell::new(0) };
    static TOTAL: Cell<usize> = const { Cell::new(0) };
}

pub struct Counting;

#[inline]
fn note_alloc(size: usize) -> bool {
    // try_with: TLS may be gone during thread teardown
    ARMED
        .try_with(|a| {
            if !a.get() {
                return true;
            }
            if size > REFUSE_ABOVE {
                LARGEST.with(|l| l.set(l.get().max(size)));
                crate::crumb::oversize(size);
                return false;
            }
            REQUESTS.with(|r| r.set(r.get() + 1));
            TOTAL.with(|t| t.set(t.get().saturating_add(size)));
            LARGEST.with(|l| l.set(l.get().max(size)));
            let live = LIVE.with(|l| {
                let v = l.get().saturating_add(size);
                l.set(v);
                v
            });
            PEAK.with(|p| p.set(p.get().max(live)));
            true
        })
        .unwrap_or(true)
}

#[inline]
fn note_free(size: usize) {
    let _ = ARMED.try_with(|a| {
        if a.get() {
            LIVE.with(|l| l.set(l.get().saturating_sub(size)));
        }
    });
}

unsafe impl GlobalAlloc for Counting {
    unsafe fn alloc(&self, layout: Layout) -> *mut u8 {
        if !note_alloc(layout.size()) {
            return std::ptr::null_mut();
        }
        System.alloc(layout)
    }

    unsafe fn alloc_zeroed(&self, layout: Layout) -> *mut u8 {
        if !note_alloc(layout.size()) {
            return std::ptr::null_mut();
        }
        System.alloc_zeroed(layout)
    }

    unsafe fn dealloc(&self, ptr: *mut u8, layout: Layout) {
        note_free(layout.size());
        System.dealloc(ptr, layout)
    }

    unsafe fn realloc(&self, ptr: *mut u8, layout: Layout, new_size: usize) -> *mut u8 {
        if new_size > layout.size() {
            if !note_alloc(new_size - layout.size()) {
                return std::ptr::null_mut();
            }
            // a realloc is one request of the new total size for the purpose of `largest`
            let _ = ARMED.try_with(|a| {
                if a.get() {
                    LARGEST.with(|l| l.set(l.get().max(new_size)));
                }
            });
        } else {
            note_free(layout.size() - new_size);
        }
        System.realloc(ptr, layout, new_size)
    }
}

/// Reset the counters and start counting on this thread.
pub fn arm() {
    LIVE.with(|c| c.set(0));
    PEAK.with(|c| c.set(0));
    LARGEST.with(|c| c.set(0));
    REQUESTS.with(|c| c.set(0));
    TOTAL.with(|c| c.set(0));
    ARMED.with(|a| a.set(true));
}

/// Stop counting and return what was observed since `arm`.
pub fn disarm() -> AllocStats {
    ARMED.with(|a| a.set(false));
    AllocStats {
        live: LIVE.with(Cell::get),
        peak_live: PEAK.with(Cell::get),
        largest: LARGEST.with(Cell::get),
        requests: REQUESTS.with(Cell::get),
        total: TOTAL.with(Cell::get),
    }
}

/// Temporarily suspend counting (used by the virtual network so that the
/// harness's own bookkeeping is not charged to the query).
pub fn pause() -> bool { ARMED.with(|a| a.replace(false)) }

pub fn resume(was: bool) { ARMED.with(|a| a.set(was)); }
