//! gdverif — bounded exhaustive exploration of rust-gamedig (see /verif/DESIGN.md).
//!
//!   gdverif check  <ID> [--tier quick|thorough]        driver: workers, merge, evidence, verdict
//!   gdverif worker <ID> <tier> <shard> <nshards> <dir> [--start-case N]
//!   gdverif replay <file> [--json]
//!   gdverif list

#![allow(clippy::type_complexity)]
#![allow(dead_code)]

mod alloc;
mod crumb;
mod explore;
mod hostile;
mod prop;
mod props;
mod report;
mod rsm;
mod run;
mod targets;
mod vnet;

use prop::Prop;
use report::{Counters, Ctx, ShardResult, Tier, Violation};
use std::collections::{BTreeMap, HashSet};
use std::io::Write;
use std::process::{Command, Stdio};
use std::time::{Duration, Instant};

#[global_allocator]
static GLOBAL: alloc::Counting = alloc::Counting;

const VERIF: &str = "/verif";

fn parse_tier(s: &str) -> Tier {
    match s {
        "thorough" => Tier::Thorough,
        _ => Tier::Quick,
    }
}

fn find_prop(id: &str) -> &'static dyn Prop {
    for p in props::all() {
        if p.id() == id {
            return p;
        }
    }
    eprintln!("unknown property {id}");
    std::process::exit(2);
}

fn seed() -> u64 {
    std::env::var("VERIF_SEED")
        .ok()
        .and_then(|s| s.parse().ok())
        .unwrap_or(0)
}

fn main() {
    std::env::remove_var("RUST_BACKTRACE");
    std::env::remove_var("RUST_LIB_BACKTRACE");
    let args: Vec<String> = std::env::args().collect();
    if args.len() < 2 {
        eprintln!("usage: gdverif check|worker|replay|list ...");
        std::process::exit(2);
    }
    match args[1].as_str() {
        "list" => {
            for p in props::all() {
                println!("{}", p.id());
            }
        }
        "check" => {
            let id = &args[2];
            let mut tier = std::env::var("VERIF_TIER")
                .map(|t| parse_tier(&t))
                .unwrap_or(Tier::Quick);
            let mut i = 3;
            while i < args.len() {
                if args[i] == "--tier" && i + 1 < args.len() {
                    tier = parse_tier(&args[i + 1]);
                    i += 1;
                }
                i += 1;
            }
            std::process::exit(driver(find_prop(id), tier));
        }
        "worker" => {
            let p = find_prop(&args[2]);
            let tier = parse_tier(&args[3]);
            let shard: usize = args[4].parse().unwrap();
            let nshards: usize = args[5].parse().unwrap();
            let dir = args[6].clone();
            let mut start_case = 0usize;
            let mut i = 7;
            while i < args.len() {
                if args[i] == "--start-case" {
                    start_case = args[i + 1].parse().unwrap();
                    i += 1;
                }
                i += 1;
            }
            worker(p, tier, shard, nshards, &dir, start_case);
        }
        "replay" => {
            let json = args.iter().any(|a| a == "--json");
            std::process::exit(replay(&args[2], json));
        }
        other => {
            eprintln!("unknown command {other}");
            std::process::exit(2);
        }
    }
}

// ---------------------------------------------------------------------------
// worker

fn skip_file(dir: &str) -> String { format!("{dir}/skip.jsonl") }

fn load_skip(dir: &str) -> HashSet<(usize, Vec<u32>)> {
    let mut s = HashSet::new();
    if let Ok(text) = std::fs::read_to_string(skip_file(dir)) {
        for line in text.lines() {
            if let Ok((c, ch)) = serde_json::from_str::<(usize, Vec<u32>)>(line) {
                s.insert((c, ch));
            }
        }
    }
    s
}

fn worker(p: &'static dyn Prop, tier: Tier, shard: usize, nshards: usize, dir: &str, start_case: usize) {
    run::install_panic_hook();
    crumb::open(&format!("{dir}/crumb_{shard}"));
    let out_path = format!("{dir}/shard_{shard}.jsonl");
    let mut out = std::fs::OpenOptions::new()
        .create(true)
        .append(true)
        .open(&out_path)
        .expect("open shard output");
    let skip = load_skip(dir);
    let n = p.n_cases(tier);
    let mut idx = shard;
    while idx < n {
        if idx >= start_case {
            let mut ctx = Ctx::new(p.id(), tier, seed());
            ctx.skip = skip.clone();
            ctx.case = idx;
            ctx.case_label = p.case_label(tier, idx);
            ctx.counters.cases = 1;
            crumb::mark(idx, &[]);
            p.run_case(tier, idx, &mut ctx);
            crumb::done();
            let res = ShardResult {
                counters: ctx.counters,
                samples: ctx.samples,
                violations: ctx.violations,
                class_counts: ctx.class_counts,
                distinct: ctx.distinct.into_iter().collect(),
                finished: false,
                next_case: idx + nshards,
            };
            let line = serde_json::to_string(&res).unwrap();
            writeln!(out, "{line}").unwrap();
        }
        idx += nshards;
    }
    let fin = ShardResult {
        finished: true,
        next_case: idx,
        ..Default::default()
    };
    writeln!(out, "{}", serde_json::to_string(&fin).unwrap()).unwrap();
}

// ---------------------------------------------------------------------------
// replay

#[derive(serde::Serialize, serde::Deserialize)]
struct ReplayFile {
    property: String,
    tier: Tier,
    violation: Violation,
    count_in_class: u64,
    how_to_replay: String,
    /// cases the same worker process had run before this one. Empty for an execution that reproduces on its own; filled in
    /// when it only reproduces after those cases ran in the same process (state that outlives a query: a process-wide
    /// cache, a lazily built global) - the replay then runs them first, in order
    #[serde(default)]
    history: Vec<usize>,
}

fn replay(path: &str, json: bool) -> i32 {
    run::install_panic_hook();
    let text = match std::fs::read_to_string(path) {
        Ok(t) => t,
        Err(e) => {
            eprintln!("cannot read {path}: {e}");
            return 2;
        }
    };
    let rf: ReplayFile = match serde_json::from_str(&text) {
        Ok(r) => r,
        Err(e) => {
            eprintln!("cannot parse {path}: {e}");
            return 2;
        }
    };
    let p = find_prop(&rf.property);
    for h in &rf.history {
        let mut hc = Ctx::new(p.id(), rf.tier, seed());
        hc.case = *h;
        hc.case_label = p.case_label(rf.tier, *h);
        crumb::mark(*h, &[]);
        p.run_case(rf.tier, *h, &mut hc);
    }
    let mut ctx = Ctx::new(p.id(), rf.tier, seed());
    ctx.case = rf.violation.case;
    ctx.case_label = p.case_label(rf.tier, rf.violation.case);
    ctx.replay = Some(rf.violation.choices.clone());
    ctx.max_per_class = 1_000;
    p.run_case(rf.tier, rf.violation.case, &mut ctx);
    let same: Vec<&Violation> = ctx
        .violations
        .iter()
        .filter(|v| v.class == rf.violation.class)
        .collect();
    if json {
        // (library code may print to stdout: mark our line)
        println!("\nGDVERIF-JSON:{}", serde_json::to_string(&ctx.violations).unwrap());
    } else {
        println!(
            "replayed property={} case={} ({}) choices={:?}",
            rf.property, rf.violation.case, ctx.case_label, rf.violation.choices
        );
        for v in &ctx.violations {
            println!("  class: {}", v.class);
            println!("  detail: {}", v.detail);
            println!("  observed: {}", v.observed);
            println!("  expected: {}", v.expected);
            for w in &v.wire {
                println!("    {w}");
            }
        }
    }
    if same.is_empty() {
        if !json {
            println!("violation did NOT reproduce");
        }
        0
    } else {
        if !json {
            println!("VIOLATION property={} replay={}", rf.property, path);
        }
        1
    }
}

// ---------------------------------------------------------------------------
// driver

#[derive(serde::Deserialize, Debug, Clone)]
struct KnownFinding {
    property: String,
    class: String,
    what: String,
}

fn load_known() -> Vec<KnownFinding> {
    let mut v = Vec::new();
    if let Ok(text) = std::fs::read_to_string(format!("{VERIF}/known_findings.jsonl")) {
        for line in text.lines() {
            let line = line.trim();
            if !line.starts_with('{') {
                continue; // comments and "fixed:" records suppress nothing
            }
            match serde_json::from_str::<KnownFinding>(line) {
                Ok(k) => v.push(k),
                Err(e) => eprintln!("known_findings.jsonl: bad line ({e}): {line}"),
            }
        }
    }
    v
}

fn class_matches(pattern: &str, class: &str) -> bool {
    match pattern.strip_suffix('*') {
        Some(pre) => class.starts_with(pre),
        None => pattern == class,
    }
}

fn sha(s: &str) -> String {
    use std::hash::{Hash, Hasher};
    let mut h = std::collections::hash_map::DefaultHasher::new();
    s.hash(&mut h);
    // DefaultHasher::new() uses fixed keys: stable across runs
    format!("{:016x}", h.finish())
}

fn driver(p: &'static dyn Prop, tier: Tier) -> i32 {
    let t0 = Instant::now();
    let id = p.id();
    let dir = format!("{VERIF}/target/run/{id}-{}", tier.name());
    let _ = std::fs::remove_dir_all(&dir);
    std::fs::create_dir_all(&dir).unwrap();
    let evidence_path = format!("{VERIF}/evidence/{id}.json");
    let _ = std::fs::remove_file(&evidence_path);
    std::fs::create_dir_all(format!("{VERIF}/evidence")).unwrap();
    let replay_dir = format!("{VERIF}/replays/{id}");
    let _ = std::fs::remove_dir_all(&replay_dir);
    std::fs::create_dir_all(&replay_dir).unwrap();

    let exe = std::env::current_exe().unwrap();
    let n_cases = p.n_cases(tier);
    let nshards = p.shards(tier).min(n_cases.max(1));
    let mut deaths: Vec<Violation> = Vec::new();
    let mut machinery: Vec<String> = Vec::new();

    struct W {
        child: std::process::Child,
        shard: usize,
        last_crumb: Vec<u8>,
        last_change: Instant,
        restarts: usize,
    }
    let spawn = |shard: usize, start_case: usize| -> std::process::Child {
        Command::new(&exe)
            .arg("worker")
            .arg(id)
            .arg(tier.name())
            .arg(shard.to_string())
            .arg(nshards.to_string())
            .arg(&dir)
            .arg("--start-case")
            .arg(start_case.to_string())
            .env_remove("RUST_BACKTRACE")
            .stdin(Stdio::null())
            .stdout(Stdio::inherit())
            .stderr(Stdio::inherit())
            .spawn()
            .expect("spawn worker")
    };
    let mut workers: Vec<W> = (0 .. nshards)
        .map(|s| {
            W {
                child: spawn(s, 0),
                shard: s,
                last_crumb: Vec::new(),
                last_change: Instant::now(),
                restarts: 0,
            }
        })
        .collect();
    let mut died_at: HashSet<(usize, Vec<u32>)> = HashSet::new();
    // cases given up after the same execution killed the worker twice: the death is reported as a violation of that case,
    // so the case counts as reported even though it has no result record
    let mut abandoned: HashSet<usize> = HashSet::new();
    let stall = Duration::from_secs(p.stall_secs());
    let mut done = vec![false; nshards];
    while done.iter().any(|d| !d) {
        std::thread::sleep(Duration::from_millis(20));
        for w in workers.iter_mut() {
            if done[w.shard] {
                continue;
            }
            let crumb_path = format!("{dir}/crumb_{}", w.shard);
            let status = w.child.try_wait().expect("try_wait");
            let mut died: Option<String> = None;
            match status {
                Some(st) if st.success() => {
                    done[w.shard] = true;
                    continue;
                }
                Some(st) => {
                    use std::os::unix::process::ExitStatusExt;
                    died = Some(match st.signal() {
                        Some(sig) => format!("killed by signal {sig}"),
                        None => format!("exit status {:?}", st.code()),
                    });
                }
                None => {
                    let cur = std::fs::read(&crumb_path).unwrap_or_default();
                    if cur != w.last_crumb {
                        w.last_crumb = cur;
                        w.last_change = Instant::now();
                    } else if w.last_change.elapsed() > stall {
                        let _ = w.child.kill();
                        let _ = w.child.wait();
                        died = Some(format!("no progress for {} s (killed by watchdog)", stall.as_secs()));
                    }
                }
            }
            if let Some(why) = died {
                match crumb::read(&crumb_path) {
                    Some((case, choices, oversize)) => {
                        let class = match oversize {
                            Some(_) => format!(
                                "process-death:oversize-allocation>1GiB:{}",
                                p.case_label(tier, case).split([' ', '\'']).next().unwrap_or("")
                            ),
                            None => format!("process-death:{why}"),
                        };
                        deaths.push(Violation {
                            property: id.to_string(),
                            class,
                            case,
                            case_label: p.case_label(tier, case),
                            choices: choices.clone(),
                            detail: format!(
                                "worker process died while running this execution: {why}{}",
                                oversize.map(|n| format!(" (a single allocation of {n} bytes was requested)")).unwrap_or_default()
                            ),
                            observed: why.clone(),
                            expected: "the query returns Ok or Err".into(),
                            wire: vec![],
                        });
                        let mut f = std::fs::OpenOptions::new()
                            .create(true)
                            .append(true)
                            .open(skip_file(&dir))
                            .unwrap();
                        writeln!(f, "{}", serde_json::to_string(&(case, &choices)).unwrap()).unwrap();
                        w.restarts += 1;
                        // the same execution killed the worker twice (a case that is not under the explorer's
                        // skip list): give up on that case and continue with the next one
                        let repeated = died_at.contains(&(case, choices.clone()));
                        died_at.insert((case, choices.clone()));
                        if repeated {
                            abandoned.insert(case + nshards); // (result records are keyed by the shard's next case)
                        }
                        let case = if repeated { case + 1 } else { case };
                        if w.restarts > 2000 {
                            machinery.push(format!("shard {}: more than 2000 worker deaths", w.shard));
                            done[w.shard] = true;
                        } else {
                            w.child = spawn(w.shard, case);
                            w.last_change = Instant::now();
                        }
                    }
                    None => {
                        machinery.push(format!(
                            "shard {}: worker died ({why}) outside any execution",
                            w.shard
                        ));
                        done[w.shard] = true;
                    }
                }
            }
        }
    }

    // merge
    let mut counters = Counters::default();
    let mut samples: Vec<serde_json::Value> = Vec::new();
    let mut violations: Vec<Violation> = Vec::new();
    let mut class_counts: BTreeMap<String, u64> = BTreeMap::new();
    let mut distinct: HashSet<u64> = HashSet::new();
    let mut seen_cases: HashSet<usize> = HashSet::new();
    for s in 0 .. nshards {
        let path = format!("{dir}/shard_{s}.jsonl");
        let text = std::fs::read_to_string(&path).unwrap_or_default();
        let mut finished = false;
        // a case may appear twice if a worker died after writing it (it is
        // restarted from that case): keep the last record per case
        let mut per_case: BTreeMap<usize, ShardResult> = BTreeMap::new();
        for line in text.lines() {
            match serde_json::from_str::<ShardResult>(line) {
                Ok(r) => {
                    if r.finished {
                        finished = true;
                    } else {
                        per_case.insert(r.next_case, r);
                    }
                }
                Err(e) => machinery.push(format!("shard {s}: unreadable result line: {e}")),
            }
        }
        if !finished && !machinery.iter().any(|m| m.starts_with(&format!("shard {s}:"))) {
            machinery.push(format!("shard {s}: did not finish"));
        }
        for (k, r) in per_case {
            seen_cases.insert(k);
            counters.merge(&r.counters);
            for smp in r.samples {
                if samples.len() < 8 {
                    samples.push(smp);
                }
            }
            violations.extend(r.violations);
            for (c, n) in r.class_counts {
                *class_counts.entry(c).or_insert(0) += n;
            }
            distinct.extend(r.distinct);
        }
    }
    for d in deaths {
        *class_counts.entry(d.class.clone()).or_insert(0) += 1;
        violations.push(d);
    }

    // group by class, keep the shortest representative
    let mut groups: BTreeMap<String, Violation> = BTreeMap::new();
    for v in violations {
        if v.class.starts_with("MACHINERY") {
            machinery.push(format!("{}: {} (case {} choices {:?})", v.class, v.detail, v.case_label, v.choices));
            continue;
        }
        match groups.get(&v.class) {
            Some(old)
                if (old.choices.iter().filter(|c| **c != 0).count(), old.choices.len(), old.case)
                    <= (v.choices.iter().filter(|c| **c != 0).count(), v.choices.len(), v.case) => {}
            _ => {
                groups.insert(v.class.clone(), v);
            }
        }
    }

    let known = load_known();
    let mut n_new = 0usize;
    let mut n_known = 0usize;
    let mut lines: Vec<String> = Vec::new();
    let mut known_hit: Vec<String> = Vec::new();
    for (class, v) in &groups {
        let count = class_counts.get(class).copied().unwrap_or(1);
        let file = format!("{replay_dir}/{}.json", sha(&format!("{class}|{}|{:?}", v.case_label, v.choices)));
        let rf = ReplayFile {
            property: id.to_string(),
            tier,
            violation: v.clone(),
            count_in_class: count,
            how_to_replay: format!("/verif/bin/check replay {file}"),
            history: vec![],
        };
        std::fs::write(&file, serde_json::to_string_pretty(&rf).unwrap()).unwrap();
        let k = known
            .iter()
            .find(|k| k.property == id && class_matches(&k.class, class));
        if let Some(k) = k {
            n_known += 1;
            if !known_hit.contains(&k.class) {
                known_hit.push(k.class.clone());
                lines.push(format!("KNOWN-FINDING: property={id} {} [class {}; {} executions; e.g. {file}]", k.what, k.class, count));
            }
            continue;
        }
        // confirm determinism before reporting (not for process deaths, which
        // were observed in a subprocess already)
        if !class.starts_with("process-death") {
            let run_replay = |machinery: &mut Vec<String>| -> Option<(Option<i32>, String)> {
                let o = Command::new(&exe)
                    .arg("replay")
                    .arg(&file)
                    .arg("--json")
                    .env_remove("RUST_BACKTRACE")
                    .output();
                match o {
                    Ok(o) => {
                        // compare what was observed: the set of (class, observed) pairs
                        let text = String::from_utf8_lossy(&o.stdout).to_string();
                        let line = text.lines().find_map(|l| l.strip_prefix("GDVERIF-JSON:")).unwrap_or("[]");
                        let vs: Vec<Violation> = serde_json::from_str(line).unwrap_or_default();
                        // (responses hold hash sets and maps, e.g. Unreal 2 mutators, whose iteration order differs from
                        // process to process: what is compared is the multiset of tokens of the observation, not their order)
                        let tokens = |s: &str| -> String {
                            // (measured durations differ from run to run: digits are compared as a class)
                            // (every run of digits and decimal points becomes one '0': the number of printed digits varies too)
                            let mut masked = String::with_capacity(s.len());
                            for c in s.chars() {
                                if c.is_ascii_digit() || (c == '.' && masked.ends_with('0')) {
                                    if !masked.ends_with('0') {
                                        masked.push('0');
                                    }
                                } else {
                                    masked.push(c);
                                }
                            }
                            let mut t: Vec<&str> = masked.split(|c: char| !c.is_alphanumeric() && c != '_' && c != '-').filter(|x| !x.is_empty()).collect();
                            t.sort_unstable();
                            t.dedup();
                            t.join(" ")
                        };
                        let mut obs: Vec<(String, String)> = vs.into_iter().filter(|x| x.class == *class).map(|v| (v.class, tokens(&v.observed))).collect();
                        obs.sort();
                        Some((o.status.code(), format!("{obs:?}")))
                    }
                    Err(e) => {
                        machinery.push(format!("replay spawn failed: {e}"));
                        None
                    }
                }
            };
            let mut outs = Vec::new();
            for _ in 0 .. 2 {
                if let Some(o) = run_replay(&mut machinery) {
                    outs.push(o);
                }
            }
            // the execution does not fail on its own in a fresh process, identically twice: does it fail, identically twice,
            // after the cases its worker had run before it? Then the verdict depends on state that outlives a query, and
            // the history is part of the replayable artefact
            let mut history_dependent = false;
            if outs.len() == 2 && outs[0] == outs[1] && outs[0].0 == Some(0) {
                let shard = v.case % nshards;
                let history: Vec<usize> = (shard .. v.case).step_by(nshards).collect();
                if !history.is_empty() {
                    let rfh = ReplayFile {
                        property: id.to_string(),
                        tier,
                        violation: v.clone(),
                        count_in_class: count,
                        how_to_replay: format!("/verif/bin/check replay {file}   (runs the {} earlier cases of the same worker first)", history.len()),
                        history,
                    };
                    std::fs::write(&file, serde_json::to_string_pretty(&rfh).unwrap()).unwrap();
                    outs.clear();
                    for _ in 0 .. 2 {
                        if let Some(o) = run_replay(&mut machinery) {
                            outs.push(o);
                        }
                    }
                    history_dependent = outs.len() == 2 && outs[0] == outs[1] && outs[0].0 == Some(1);
                }
            }
            if history_dependent {
                lines.push(format!(
                    "  note: class {class} fails only after earlier cases ran in the same process (state outlives a query); the replay file lists them"
                ));
            }
            if outs.len() == 2 && (outs[0] != outs[1] || outs[0].0 != Some(1)) {
                machinery.push(format!(
                    "violation class {class:?} did not replay identically (exit codes {:?} / {:?}) — nondeterminism leak, not reported as a verdict; see {file}",
                    outs[0].0, outs[1].0
                ));
                continue;
            }
        }
        n_new += 1;
        lines.push(format!(
            "  class={class}\n  case={}\n  choices={:?}\n  detail={}\n  observed={}\n  expected={}\n  occurrences={count}",
            v.case_label, v.choices, v.detail, v.observed, v.expected
        ));
        lines.push(format!("VIOLATION property={id} replay={file}"));
    }

    seen_cases.extend(abandoned.iter().copied());
    if seen_cases.len() != n_cases && machinery.is_empty() {
        machinery.push(format!("only {} of {} cases reported", seen_cases.len(), n_cases));
    }

    let exhaustive = counters.caps_hit.is_empty() && machinery.is_empty() && p.exhaustive_when_uncapped();
    let mut coverage = serde_json::json!({
        "states": counters.states,
        "transitions": counters.transitions,
        "traces_validated_against_impl": counters.evaluations,
        "evaluations": counters.evaluations,
        "distinct_nontrivial": distinct.len(),
        "rule": p.rule(),
        "samples": samples,
        "exhaustive": exhaustive,
        "cases": counters.cases,
        "max_depth": counters.max_depth,
        "max_menu": counters.max_menu,
        "caps_hit": counters.caps_hit,
        "bound_completed": counters.bound_completed,
        "notes": counters.notes,
        "violation_classes": class_counts,
        "known_findings_matched": known_hit,
        "workers": nshards,
    });
    if let (Some(obj), serde_json::Value::Object(extra)) = (coverage.as_object_mut(), p.extra_coverage(tier)) {
        for (k, v) in extra {
            obj.insert(k, v);
        }
    }
    let wall = t0.elapsed().as_secs_f64();
    let evidence = serde_json::json!({
        "property_id": id,
        "tier": tier.name(),
        "seed": seed(),
        "level": p.level(),
        "coverage": coverage,
        "assumptions": p.assumptions(),
        "wall_s": wall,
        "violations": n_new,
        "known_findings": n_known,
        "machinery_errors": machinery,
    });
    std::fs::write(&evidence_path, serde_json::to_string_pretty(&evidence).unwrap()).unwrap();

    for l in &lines {
        println!("{l}");
    }
    println!(
        "{id} {}: cases={} executions={} states={} transitions={} distinct_nontrivial={} max_depth={} caps={:?} violations={} known={} wall={:.1}s",
        tier.name(),
        counters.cases,
        counters.evaluations,
        counters.states,
        counters.transitions,
        distinct.len(),
        counters.max_depth,
        counters.caps_hit,
        n_new,
        n_known,
        wall
    );
    if !machinery.is_empty() {
        for m in &machinery {
            eprintln!("MACHINERY ERROR: {m}");
        }
        return 2;
    }
    if n_new > 0 {
        1
    } else {
        0
    }
}
