//! Generates the table of macro-generated per-game modules by scanning the
//! `game_query_mod!` invocations of /repo (so new games are picked up).
use std::fmt::Write as _;

fn main() {
    let base = "/repo/crates/lib/src/games";
    let mut out = String::new();
    writeln!(out, "pub type WrapperFn = fn(&std::net::IpAddr, Option<u16>) -> gamedig::GDResult<serde_json::Value>;").unwrap();
    writeln!(out, "pub static WRAPPERS: &[(&str, &str, WrapperFn)] = &[").unwrap();
    for family in ["valve", "gamespy", "quake", "unreal2"] {
        let path = format!("{base}/{family}.rs");
        println!("cargo:rerun-if-changed={path}");
        let text = std::fs::read_to_string(&path).unwrap_or_default();
        let mut rest = text.as_str();
        while let Some(i) = rest.find("game_query_mod!(") {
            rest = &rest[i + "game_query_mod!(".len() ..];
            let ident: String = rest
                .trim_start()
                .chars()
                .take_while(|c| c.is_ascii_alphanumeric() || *c == '_')
                .collect();
            if ident.is_empty() {
                continue;
            }
            writeln!(
                out,
                "    (\"{ident}\", \"{family}\", |ip, port| gamedig::games::{ident}::query(ip, port).map(|r| crate::props::common::to_json(&r))),"
            )
            .unwrap();
        }
    }
    writeln!(out, "];").unwrap();
    let dest = std::path::Path::new(&std::env::var("OUT_DIR").unwrap()).join("wrappers_gen.rs");
    std::fs::write(dest, out).unwrap();
    println!("cargo:rerun-if-changed=build.rs");
}
