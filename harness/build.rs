//! Generates the table of macro-generated per-game modules by scanning the
//! `game_query_mod!` invocations of /repo (so new games are picked up).
use std::fmt::Write as _;

fn main() {
    let base = "/repo/crates/lib/src/games";
    let mut out = String::new();
    writeln!(out, "pub type WrapperFn = fn(&std::net::IpAddr, Option<u16>) -> gamedig::GDResult<serde_json::Value>;").unwrap();
    writeln!(out, "pub static WRAPPERS: &[(&str, &str, WrapperFn)] = &[").unwrap();
    for family in ["valve", "gamespy", "quake", "unreal2"] {
        let path = format!("{base}/{family}.rs");
        println!("cargo:rerun-if-changed={path}");
        let text = std::fs::read_to_string(&path).unwrap_or_default();
        let mut rest = text.as_str();
        while let Some(i) = rest.find("game_query_mod!(") {
            rest = &rest[i + "game_query_mod!(".len() ..];
            let ident: String = rest
                .trim_start()
                .chars()
                .take_while(|c| c.is_ascii_alphanumeric() || *c == '_')
                .collect();
            if ident.is_empty() {
                continue;
            }
            writeln!(
                out,
                "    (\"{ident}\", \"{family}\", |ip, port| gamedig::games::{ident}::query(ip, port).map(|r| crate::props::common::to_json(&r))),"
            )
            .unwrap();
        }
    }
    writeln!(out, "];").unwrap();
    let dest = std::path::Path::new(&std::env::var("OUT_DIR").unwrap()).join("wrappers_gen.rs");
    std::fs::write(dest, out).unwrap();

    // Every key-like string literal of the library's sources ("sv_maxclients", "GamePassword", ...): names the code under
    // test may give a meaning to. Responses are also built with all of them present as otherwise uninterpreted entries
    // (C15), so a view that quietly consults one of them shows.
    let mut keys: std::collections::BTreeSet<String> = std::collections::BTreeSet::new();
    fn walk(dir: &std::path::Path, keys: &mut std::collections::BTreeSet<String>) {
        let Ok(rd) = std::fs::read_dir(dir) else { return };
        for e in rd.flatten() {
            let p = e.path();
            if p.is_dir() {
                walk(&p, keys);
            } else if p.extension().is_some_and(|x| x == "rs") {
                println!("cargo:rerun-if-changed={}", p.display());
                let text = std::fs::read_to_string(&p).unwrap_or_default();
                for line in text.lines() {
                    let code = line.trim_start();
                    if code.starts_with("//") || code.starts_with("#[") {
                        continue;
                    }
                    let mut parts = line.split('"');
                    parts.next();
                    while let Some(lit) = parts.next() {
                        if (3 ..= 32).contains(&lit.len())
                            && lit.chars().all(|c| c.is_ascii_alphanumeric() || c == '_')
                            && lit.chars().next().is_some_and(|c| c.is_ascii_alphabetic())
                        {
                            keys.insert(lit.to_string());
                        }
                        parts.next();
                    }
                }
            }
        }
    }
    walk(std::path::Path::new("/repo/crates/lib/src/protocols"), &mut keys);
    walk(std::path::Path::new("/repo/crates/lib/src/games"), &mut keys);
    let mut out = String::from("pub static MAGIC_KEYS: &[&str] = &[\n");
    for k in &keys {
        writeln!(out, "    \"{k}\",").unwrap();
    }
    out.push_str("];\n");
    let dest = std::path::Path::new(&std::env::var("OUT_DIR").unwrap()).join("magic_keys_gen.rs");
    std::fs::write(dest, out).unwrap();
    println!("cargo:rerun-if-changed=build.rs");
}
