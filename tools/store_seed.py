#!/usr/bin/env python3
# usage: tools/store_seed.py <ID> <slug> <property> "<needs>" "<detected_by>" "<ran>"
import sys, os, shutil, json, glob
sid, slug, prop, needs, detected, ran = sys.argv[1:7]
src = (os.environ.get("SEED_WT") or f"/tmp/seed_{sid}") + "/seed_out"
dst = f"/verif/seeded/{slug}"
os.makedirs(dst, exist_ok=True)
shutil.copy(f"{src}/patch.diff", f"{dst}/patch.diff")
for f in glob.glob(f"{src}/*"):
    b = os.path.basename(f)
    if b not in ("patch.diff",) and os.path.isfile(f) and os.path.getsize(f) < 200000:
        shutil.copy(f, f"{dst}/{b}")
json.dump({"id": slug, "property": prop, "origin": "independent sub-agent given only the property text and a scratch worktree",
           "needs_to_manifest": needs, "what_was_run": ran, "detected_by": detected}, open(f"{dst}/meta.json", "w"), indent=1)
print("stored", dst, os.listdir(dst))
