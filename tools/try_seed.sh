#!/bin/bash
# usage: tools/try_seed.sh <patch.diff> <ID> [<ID>...]   — apply a seeded change to /repo, run the given checks (quick), undo it.
# Prints one line per check: "<ID> exit=<code> <first VIOLATION line or summary>"
set -u
patch="$1"; shift
cd /repo || exit 2
if [ -n "$(git status --porcelain --untracked-files=no)" ]; then echo "/repo not clean"; exit 2; fi
if ! git apply --check "$patch" 2>/dev/null; then echo "patch does not apply"; exit 2; fi
git apply "$patch"
trap 'git -C /repo checkout -- . ; git -C /repo clean -fdq crates 2>/dev/null' EXIT
for id in "$@"; do
  out=$(/verif/bin/check "$id" --tier ${TIER:-quick} 2>&1); code=$?
  echo "$id exit=$code $(echo "$out" | grep -E '^VIOLATION|^KNOWN-FINDING|MACHINERY|BUILD FAILED' | head -3 | tr '\n' ' ' | cut -c1-300)"
  echo "$out" | grep -E "class=" | head -5 | cut -c1-200
done
