#!/bin/bash
# usage: tools/confirm_seed.sh <ID> [worktree]   — independent confirmation of a sub-agent's seeded change in its scratch worktree /tmp/seed_<ID>
# checks: (1) with the change the workspace compiles and the 57 baseline tests still pass, (2) the demonstration fails with the change, (3) passes without it.
id="$1"; wt=${2:-/tmp/seed_$id}
export CARGO_TARGET_DIR=$wt/target CARGO_NET_OFFLINE=true
unset RUST_BACKTRACE
cd $wt || exit 2
files=$(git diff --name-only | tr '\n' ' ')
echo "changed files: $files"
demo=$(ls crates/lib/tests/seed_demo.rs crates/id-tests/tests/seed_demo.rs 2>/dev/null | head -1)
pkg=gamedig; [[ "$demo" == crates/id-tests/* ]] && pkg=gamedig-id-tests
# (1) baseline suite with the change (demo excluded by running only lib/unit/named tests)
mv "$demo" /tmp/seed_demo_$id.rs.hold 2>/dev/null
suite=$(cargo test --workspace --no-fail-fast --offline 2>&1 | grep -E "^test result" | awk '{p+=$4; f+=$6} END {print p" passed "f" failed"}')
mv /tmp/seed_demo_$id.rs.hold "$demo" 2>/dev/null
echo "suite with change: $suite   (unchanged tree: 57+9 doc = 66 passed 0 failed when RUST_BACKTRACE is unset)"
# (2) demo with change
with=$(cargo test -p $pkg --offline --test seed_demo 2>&1 | grep -E "^test result" | tail -1)
echo "demo WITH change:    $with"
# (3) demo without change
git diff -- $files > $wt/.confirm_change.diff; git apply -R $wt/.confirm_change.diff   # (not git stash: the stash stack is shared between worktrees)
without=$(cargo test -p $pkg --offline --test seed_demo 2>&1 | grep -E "^test result" | tail -1)
git apply $wt/.confirm_change.diff; rm -f $wt/.confirm_change.diff
echo "demo WITHOUT change: $without"
