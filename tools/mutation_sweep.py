#!/usr/bin/env python3
"""Mechanical mutation sweep: an audit of the checks, not a registered check.
usage: mutation_sweep.py <stream> <nstreams> [--only <regex on file>] [--limit N] [--ids <file of mutant ids>]
Runs inside a private mount namespace in which scratch copies (/tmp/mut/s<k>/repo, /tmp/mut/s<k>/verif) are mounted over
/repo and /verif, so the real trees are never touched and every path in the harness stays valid. For each mutant of its
share: rewrite one source line, rebuild, run the quick checks anchored in that file first, then the other fast ones, then
the slow ones that can apply; stop at the first check that exits 1. Results: /tmp/mut/results_<k>.jsonl"""
import sys, os, json, subprocess, re, shutil, time

stream, nstreams = int(sys.argv[1]), int(sys.argv[2])
only = None; limit = None
if "--only" in sys.argv: only = re.compile(sys.argv[sys.argv.index("--only") + 1])
if "--limit" in sys.argv: limit = int(sys.argv[sys.argv.index("--limit") + 1])
ids = None
if "--ids" in sys.argv: ids = set(open(sys.argv[sys.argv.index("--ids") + 1]).read().split())
RES = "recheck" if ids is not None else "results"
PRISTINE = "/tmp/mut/pristine"          # untouched copy of the sources
props = [json.loads(l) for l in open("/verif/properties.jsonl")]
anch = {p["id"]: set(p["anchors"]["files"]) for p in props}
FAST = ["C11", "C03", "C04", "C05", "C06", "C07", "C10", "C15", "C18", "C08", "C09", "C02", "C14", "C16", "C17", "C13"]
def order(file):
    first = [i for i in FAST if file in anch[i]]
    rest = [i for i in FAST if i not in first]
    slow = []
    if file.startswith("crates/id-tests"): return ["C20"]
    if file.startswith("crates/cli"): return ["C19", "C18"]
    slow.append("C01")
    if any(s in file for s in ("socket.rs", "http.rs", "utils.rs", "protocols/types.rs", "eco", "valve_master_server")): slow.append("C12")
    if any(s in file for s in ("protocols/types.rs", "games/query.rs", "games/mod.rs", "errors")): slow.append("C19")
    return first + rest + slow

muts = [json.loads(l) for l in open("/tmp/mut/all.jsonl")]
if ids is not None: muts = [m for m in muts if m["id"] in ids]
muts = [m for i, m in enumerate(muts) if i % nstreams == stream and (only is None or only.search(m["file"]))]
if limit: muts = muts[:limit]
done = set()
resf = f"/tmp/mut/{RES}_{stream}.jsonl"
if os.path.exists(resf):
    done = {json.loads(l)["id"] for l in open(resf)}
out = open(resf, "a")
for m in muts:
    if m["id"] in done: continue
    src = os.path.join("/repo", m["file"])
    shutil.copy(os.path.join(PRISTINE, m["file"]), src)
    subprocess.run(["python3", "/verif/tools/mutate.py", "apply", "/repo", json.dumps(m)], check=True)
    t0 = time.time()
    res = {"id": m["id"], "file": m["file"], "line": m["line"], "op": m["op"], "before": m["before"], "after": m["after"]}
    b = subprocess.run("cd /verif/harness && CARGO_NET_OFFLINE=true cargo build --offline 2>&1 | tail -30", shell=True, capture_output=True, text=True)
    if "error" in b.stdout and "Finished" not in b.stdout:
        res["status"] = "does-not-compile"
    else:
        res["status"] = "survived"; res["ran"] = []
        for cid in order(m["file"]):
            try:
                r = subprocess.run(["/verif/bin/check", cid, "--tier", "quick"], capture_output=True, text=True, timeout=900)
                code = r.returncode
            except subprocess.TimeoutExpired:
                code = 124; r = None
            res["ran"].append([cid, code])
            if code == 1:
                res["status"] = "detected"; res["by"] = cid
                res["classes"] = sorted(set(re.findall(r"class=(\S+)", r.stdout + r.stderr)))[:4]
                break
            if code not in (0, 1):
                res["status"] = "machinery"; res["by"] = cid; res["tail"] = ((r.stdout + r.stderr)[-400:] if r else "timeout")
                break
    res["secs"] = round(time.time() - t0, 1)
    shutil.copy(os.path.join(PRISTINE, m["file"]), src)
    out.write(json.dumps(res) + "\n"); out.flush()
print("stream", stream, "done")
