#!/bin/bash
# usage: tools/seed_matrix.sh [glob]   — apply every stored seeded change in turn to /repo, run the quick check of its property
# (plus any extra IDs listed in seeded/<id>/also_check), undo it, and write seeded/MATRIX.txt. Afterwards every check touched is
# rerun on the unchanged tree so that /verif/evidence describes /repo itself.
cd /verif || exit 2
out=seeded/MATRIX.txt; : > $out.tmp
touched=""
for d in seeded/${1:-C*}/; do
  id=$(basename $d); prop=$(jq -r .property $d/meta.json)
  extra=$(cat $d/also_check 2>/dev/null)
  res=$(tools/try_seed.sh /verif/$d/patch.diff $prop $extra 2>&1)
  line=$(echo "$res" | grep -E "^C[0-9]+ exit=" | awk '{printf "%s %s; ", $1, $2}')
  classes=$(echo "$res" | grep -E "class=" | sed 's/^ *class=//' | sort -u | head -4 | tr '\n' ',' )
  echo "$id | $line| $classes" | tee -a $out.tmp
  touched="$touched $prop $extra"
done
mv $out.tmp $out
if [ -n "$(git -C /repo status --porcelain --untracked-files=no)" ]; then echo "/repo NOT CLEAN"; exit 2; fi
for id in $(echo $touched | tr ' ' '\n' | sort -u); do bin/check $id --tier quick 2>&1 | tail -1 | cut -c1-200; done
