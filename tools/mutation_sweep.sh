#!/bin/bash
# usage: tools/mutation_sweep.sh <nstreams> [extra args for mutation_sweep.py]
# Sets up /tmp/mut (pristine sources, mutant list, one scratch mirror per stream) and runs the streams in parallel,
# each in its own mount namespace. Nothing here is needed by a registered command; remove /tmp/mut when done.
n=${1:-4}; shift
mkdir -p /tmp/mut
rm -rf /tmp/mut/pristine; mkdir -p /tmp/mut/pristine
rsync -a --exclude target --exclude .git /repo/ /tmp/mut/pristine/
[ -n "$KEEP_LIST" ] || python3 /verif/tools/mutate.py list /repo | grep -v -E '"file": "crates/lib/src/(protocols/epic|games/epic|games/minetest)' > /tmp/mut/all.jsonl
for k in $(seq 0 $((n-1))); do
  mkdir -p /tmp/mut/s$k
  rsync -a --delete --exclude target --exclude .git /repo/ /tmp/mut/s$k/repo/
  rsync -a --delete --exclude replays --exclude work /verif/ /tmp/mut/s$k/verif/
  ( unshare -m bash -c "mount --bind /tmp/mut/s$k/repo /repo && mount --bind /tmp/mut/s$k/verif /verif && cd /verif && exec python3 tools/mutation_sweep.py $k $n $*" > /tmp/mut/log_$k.txt 2>&1 & )
done
echo started $n streams; wc -l /tmp/mut/all.jsonl
