#!/bin/bash
# usage: tools/seed_matrix_par.sh <nstreams>   — the seed matrix (see seed_matrix.sh) in N parallel streams, each in a private mount
# namespace in which scratch copies of /repo (with .git) and /verif under /tmp/mut are mounted over /repo and /verif: the real
# trees stay free. /repo must be clean when this starts. Writes seeded/MATRIX.txt (real /verif) when all streams are done.
# The evidence files the streams write stay in the scratch copies: rerun the checks on the real tree before committing evidence.
n=${1:-4}
if [ -n "$(git -C /repo status --porcelain --untracked-files=no)" ]; then echo "/repo not clean"; exit 2; fi
mkdir -p /tmp/mut
ls -d /verif/seeded/C*/ | xargs -n1 basename | grep -E "${MATRIX_FILTER:-.}" > /tmp/mut/matrix_all.txt   # MATRIX_FILTER: regex over seed ids (partial matrix)
for k in $(seq 0 $((n-1))); do
  mkdir -p /tmp/mut/s$k/repo /tmp/mut/s$k/verif
  rsync -a --delete --exclude target /repo/ /tmp/mut/s$k/repo/
  rsync -a --delete --exclude replays --exclude work --exclude 'target/run' /verif/ /tmp/mut/s$k/verif/
  awk -v k=$k -v n=$n 'NR % n == k' /tmp/mut/matrix_all.txt > /tmp/mut/matrix_list_$k.txt
  : > /tmp/mut/matrix_$k.txt
  ( unshare -m bash -c "mount --bind /tmp/mut/s$k/repo /repo && mount --bind /tmp/mut/s$k/verif /verif && cd /verif && for id in \$(cat /tmp/mut/matrix_list_$k.txt); do d=seeded/\$id; prop=\$(jq -r .property \$d/meta.json); extra=\$(cat \$d/also_check 2>/dev/null); res=\$(tools/try_seed.sh /verif/\$d/patch.diff \$prop \$extra 2>&1); line=\$(echo \"\$res\" | grep -E '^C[0-9]+ exit=' | awk '{printf \"%s %s; \", \$1, \$2}'); [ -z \"\$line\" ] && line=\"\$(echo \$res | head -c 80)\"; classes=\$(echo \"\$res\" | grep -E 'class=' | sed 's/^ *class=//' | sort -u | head -4 | tr '\n' ','); echo \"\$id | \$line| \$classes\" >> /tmp/mut/matrix_$k.txt; done; echo DONE >> /tmp/mut/matrix_$k.txt" > /tmp/mut/matrix_log_$k.txt 2>&1 & )
done
echo "started $n streams over $(wc -l < /tmp/mut/matrix_all.txt) seeds; results in /tmp/mut/matrix_<k>.txt; when every file ends with DONE: sort /tmp/mut/matrix_?.txt | grep -v '^DONE' > /verif/seeded/MATRIX.txt"
