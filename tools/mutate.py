#!/usr/bin/env python3
"""Mechanical mutant generator for the rust-gamedig sources (used by tools/mutation_sweep.sh).
usage: mutate.py list <repo_root>              -> JSON lines {id, file, line, op, before, after}
       mutate.py apply <repo_root> <mutant-json>  (rewrites the one line in place)
One mutation per mutant, one line per mutation. Comment lines, attributes, `use` lines, string contents and
#[cfg(test)] modules are left alone."""
import sys, re, json, os, hashlib

SKIP_FILES = ("verif_hook.rs", "/capture/", "definitions.rs", "/tests/", "build.rs", "/examples/")
ROOTS = ("crates/lib/src", "crates/cli/src", "crates/id-tests/src")

def code_lines(path):
    lines = open(path, encoding="utf-8").read().split("\n")
    out = []
    in_test = False
    hook_depth = None   # inside a block introduced by #[cfg(gamedig_verif)] (verification hook, not project code)
    hook_pending = False
    for i, l in enumerate(lines):
        s = l.strip()
        if s.startswith("#[cfg(gamedig_verif)]"):
            hook_pending = True
            continue
        if hook_pending:
            hook_pending = False
            if s.endswith("{"):
                hook_depth = len(l) - len(l.lstrip())
            continue
        if hook_depth is not None:
            if s == "}" and len(l) - len(l.lstrip()) == hook_depth:
                hook_depth = None
            continue
        if s.startswith("#[cfg(test)]"):
            in_test = True   # test modules sit at the end of the file in this code base
        if in_test: continue
        if not s or s.startswith("//") or s.startswith("#[") or s.startswith("#![") or s.startswith("use ") or s.startswith("pub use ") or s.startswith("mod ") or s.startswith("pub mod "): continue
        out.append((i, l))
    return lines, out

STR = re.compile(r'b?"(?:[^"\\]|\\.)*"|b?\'(?:[^\'\\]|\\.)\'')

def mask(l):
    # mask string/char literals and trailing comments with same-length filler
    l2 = STR.sub(lambda m: "\x00" * len(m.group(0)), l)
    k = l2.find("//")
    if k >= 0: l2 = l2[:k] + "\x00" * (len(l2) - k)
    return l2

def sites(l):
    m = mask(l)
    res = []
    def rep(pat, subs, op):
        for mt in re.finditer(pat, m):
            for sub in subs(mt):
                res.append((op, l[:mt.start()] + sub + l[mt.end():]))
    rep(r" <= ", lambda mt: [" < "], "ROR")
    rep(r" >= ", lambda mt: [" > "], "ROR")
    rep(r"(?<=[\w\)\]]) < (?=[\w\(])", lambda mt: [" <= "], "ROR")
    rep(r"(?<=[\w\)\]]) > (?=[\w\(])", lambda mt: [" >= "], "ROR")
    rep(r" == ", lambda mt: [" != "], "ROR")
    rep(r" != ", lambda mt: [" == "], "ROR")
    rep(r" \+ ", lambda mt: [" - "], "AOR")
    rep(r"(?<=[\w\)\]]) - (?=[\w\(])", lambda mt: [" + "], "AOR")
    rep(r" \+= ", lambda mt: [" -= "], "AOR")
    rep(r" -= ", lambda mt: [" += "], "AOR")
    rep(r" && ", lambda mt: [" || "], "LCR")
    rep(r" \|\| ", lambda mt: [" && "], "LCR")
    rep(r"\btrue\b", lambda mt: ["false"], "BOOL")
    rep(r"\bfalse\b", lambda mt: ["true"], "BOOL")
    rep(r"\.min\(", lambda mt: [".max("], "MINMAX")
    rep(r"\.max\(", lambda mt: [".min("], "MINMAX")
    rep(r"\bBigEndian\b", lambda mt: ["LittleEndian"], "ENDIAN")
    rep(r"\bLittleEndian\b", lambda mt: ["BigEndian"], "ENDIAN")
    rep(r"to_be_bytes", lambda mt: ["to_le_bytes"], "ENDIAN")
    rep(r"to_le_bytes", lambda mt: ["to_be_bytes"], "ENDIAN")
    rep(r"saturating_sub", lambda mt: ["wrapping_sub"], "ARITH")
    rep(r"saturating_add", lambda mt: ["wrapping_add"], "ARITH")
    rep(r"checked_add", lambda mt: ["wrapping_add"], "ARITH") if False else None
    def lit(mt):
        t = mt.group(0)
        try:
            v = int(t.replace("_", ""), 16 if t.startswith("0x") else 10)
        except ValueError:
            return []
        outs = []
        fmt = (lambda x: hex(x)) if t.startswith("0x") else str
        outs.append(fmt(v + 1))
        if v > 0: outs.append(fmt(v - 1))
        return outs
    rep(r"(?<![\w\.\x00])(0x[0-9a-fA-F_]+|\d[\d_]*)(?![\w\.]|\x00)", lit, "LIT")
    # string / byte-string literals that are data (map keys, compared values, request payloads), not messages:
    # the last character is changed
    for mt in re.finditer(r'(?:remove|get|contains_key|starts_with|ends_with|eq_ignore_ascii_case|insert|push_str|extend_from_slice|send)\(\s*&?(b?"((?:[^"\\]|\\.)+)")|(?:==|!=|=>)\s*(b?"((?:[^"\\]|\\.)+)")|^\s*(b?"((?:[^"\\]|\\.)+)")\s*(?:\||=>)', l):
        for gi in (1, 3, 5):
            if mt.group(gi):
                lit, body = mt.group(gi), mt.group(gi + 1)
                if body.endswith("\\") or len(body) < 1: continue
                last = body[-1]
                repl = "X" if last != "X" else "Y"
                if len(body) >= 2 and body[-2] == "\\":   # escape sequence at the end: mutate the char before it
                    continue
                newlit = lit[:-2] + repl + '"'
                st = mt.start(gi)
                res.append(("STR", l[:st] + newlit + l[st + len(lit):]))
    # range bounds
    rep(r"(?<=[\w\)\]]) \.\. (?=[\w\(])", lambda mt: [" ..= "], "RANGE")
    rep(r" \.\.= ", lambda mt: [" .. "], "RANGE")
    s = l.strip()
    # statement deletion: a bare call statement
    if re.match(r"^[a-z_][\w\.]*(\.|\()[^=]*;$", s) and not s.startswith(("return", "let ", "break", "continue")) and " = " not in mask(s):
        res.append(("DEL", l[:len(l) - len(l.lstrip())] + "// (deleted)"))
    # negate an if condition
    mt = re.match(r"^(\s*(?:\} else )?if )(?!let )(.+)( \{)\s*$", l)
    if mt and "\x00" not in mask(mt.group(2))[:0]:
        res.append(("NEG", f"{mt.group(1)}!({mt.group(2)}){mt.group(3)}"))
    # drop `?` -> not compilable in general; skip
    return res

def all_mutants(root):
    out = []
    for r in ROOTS:
        for dp, dn, fn in os.walk(os.path.join(root, r)):
            for f in sorted(fn):
                p = os.path.join(dp, f)
                rel = os.path.relpath(p, root)
                if not f.endswith(".rs") or any(s in "/" + rel for s in SKIP_FILES): continue
                lines, code = code_lines(p)
                for (i, l) in code:
                    for (op, new) in sites(l):
                        if new == l: continue
                        mid = hashlib.sha1(f"{rel}:{i}:{new}".encode()).hexdigest()[:10]
                        out.append({"id": mid, "file": rel, "line": i + 1, "op": op, "before": l.strip(), "after": new.strip(), "new_line": new})
    return out

if __name__ == "__main__":
    if sys.argv[1] == "list":
        for m in all_mutants(sys.argv[2]): print(json.dumps(m))
    elif sys.argv[1] == "apply":
        m = json.loads(sys.argv[3])
        p = os.path.join(sys.argv[2], m["file"])
        lines = open(p, encoding="utf-8").read().split("\n")
        assert lines[m["line"] - 1].strip() == m["before"], "source moved"
        lines[m["line"] - 1] = m["new_line"]
        open(p, "w", encoding="utf-8").write("\n".join(lines))
